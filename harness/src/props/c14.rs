//! C14 — transactions survive DSL and JSON round trips unchanged.
use super::*;
use crate::dslgen::{self, unhex6};
use crate::rng::Rng;
use cgt_core::{Operation, Transaction};
use serde_json::json;

pub fn run(ctx: &mut Ctx) {
    let prop = "C14";
    ctx.ev.rule = "generated DSL-expressible transaction lists (seven kinds, decimals of every scale 0–28 and mantissas up to 2^96−1, ISO codes incl. 0- and 3-decimal currencies and, for one amount in six, any code the currency type accepts (withdrawn and superseded ones included), zero and non-zero optional clauses with and without a foreign label): (1) real writer output == Lean writer model, byte for byte; (2) parse(write(l)) == l up to the currency label of zero fees/taxes; (3) write is idempotent through parse; (4) serde JSON round trip is the identity; (5) the report of l, of parse(write(l)) and of its JSON round trip are equal (when l is a computable ledger). Non-trivial = lists with a non-GBP amount and a decimal of scale ≥ 5; distinct by written text.".into();
    let _ = prop;
    let mut r = Rng::new(ctx.seed ^ 0xC14);
    let n = ctx.n(600, 40_000);
    let ex = crate::run_impl::wide_exemptions();
    let cfg = crate::run_impl::config_from(&ex);
    let fx = cgt_money::load_default_cache().ok();
    for i in 0..n {
        ctx.ev.evaluations += 1;
        let k = 1 + r.below(6) as usize;
        let mut txs: Vec<Transaction> = (0..k).map(|_| dslgen::gen_tx(&mut r)).collect();
        for t in &mut txs { t.ticker = t.ticker.to_uppercase(); }
        // every fifth list holds one transaction twice in a row (two identical fills of one order): both must survive
        if i % 5 == 3 && !txs.is_empty() { let j = (i as usize / 5) % txs.len(); let d = txs[j].clone(); txs.insert(j, d); }
        let text = cgt_core::dsl::transactions_to_dsl(&txs);
        if txs.iter().any(|t| dslgen::tx_wire(t).contains(":USD") || dslgen::tx_wire(t).contains(":EUR")) && text.split(|c: char| !c.is_ascii_digit() && c != '.').any(|w| w.split('.').nth(1).map(|f| f.len() >= 5).unwrap_or(false)) { ctx.ev.nontrivial.insert(text.clone()); }
        // (1) writer vs model
        if let Some(m) = ctx.model.as_mut() {
            ctx.ev.traces_validated += 1;
            let resp = m.ask(&format!("write {}", txs.iter().map(dslgen::tx_wire).collect::<Vec<_>>().join(" ")));
            let mt = resp.strip_prefix("ok ").map(unhex6).unwrap_or_else(|| if resp == "ok" { String::new() } else { format!("<{resp}>") });
            if mt != text {
                ctx.ev.violation("correspondence", "the DSL writer's output differs from the Lean writer model".into(), format!("# property C14\n# correspondence: writer\n# impl:\n{text}\n# model:\n{mt}\n"));
            }
        }
        // (2) parse back
        let want: Vec<Transaction> = txs.iter().map(dslgen::drop_zero_label).collect();
        match cgt_core::parser::parse_file(&text) {
            Ok(back) => {
                if back != want {
                    let idx = back.iter().zip(&want).position(|(a, b)| a != b).unwrap_or(0);
                    ctx.ev.violation("oracle", format!("writing as DSL and parsing back changes transaction {}: {:?} became {:?}", idx + 1, want.get(idx), back.get(idx)), format!("# property C14\n# oracle: DSL round trip\n{text}\n"));
                }
                // (3) idempotent
                let again = cgt_core::dsl::transactions_to_dsl(&back);
                let text_norm = cgt_core::dsl::transactions_to_dsl(&want);
                if again != text_norm || text_norm != text {
                    ctx.ev.violation("oracle", "writing is not idempotent: write(parse(write(l))) differs from write(l)".into(), format!("# property C14\n# oracle: idempotence\n# first:\n{text}\n# second:\n{again}\n"));
                }
            }
            Err(e) => ctx.ev.violation("oracle", format!("the writer's own output does not parse: {}", e.to_string().lines().next().unwrap_or("")), format!("# property C14\n# oracle: write then parse\n{text}\n")),
        }
        // (4) JSON
        match serde_json::to_string(&txs).map_err(|e| e.to_string()).and_then(|s| serde_json::from_str::<Vec<Transaction>>(&s).map_err(|e| format!("{e} in {s}"))) {
            Ok(back) => if back != txs { ctx.ev.violation("oracle", "serialising to JSON and reading back changes a transaction".into(), format!("# property C14\n# oracle: JSON round trip\n{}\n", serde_json::to_string_pretty(&txs).unwrap_or_default())); },
            Err(e) => ctx.ev.violation("oracle", format!("the tool's own JSON does not read back: {e}"), format!("# property C14\n{text}\n")),
        }
        // (4b) the JSON value model: the value serde gives for each transaction is the model's, and variants of
        // it (action and ticker in other letter case, `CAP_RETURN`, pounds as a bare string, a zero fee left out,
        // an unknown extra key, the legacy `gbp` key, a missing or unknown currency, a zero quantity, 30 February)
        // are accepted or refused by the real reader as by the model's, to the same transaction
        if let Some(m) = ctx.model.as_mut() {
            for t in txs.iter().take(3) {
                let Ok(v) = serde_json::to_value(t) else { continue };
                ctx.ev.traces_validated += 1;
                let resp = m.ask(&format!("tojson {}", dslgen::tx_wire(t)));
                let want = format!("ok {}", jv_wire(&v));
                if resp != want && !resp.starts_with("bad-request") {
                    ctx.ev.violation("correspondence", "the JSON value of a transaction differs from the Lean model's".into(), format!("# property C14\n# correspondence: serde_json::to_value vs Json.toJ\n# impl:  {want}\n# model: {resp}\n{}\n", serde_json::to_string(t).unwrap_or_default()));
                }
                for k in 0..12u32 {
                    let mut w = v.clone();
                    let Some(o) = w.as_object_mut() else { continue };
                    let money_key = ["price", "total_value"].into_iter().find(|k| o.contains_key(*k));
                    match k {
                        0 => {}
                        1 => { if let Some(a) = o.get("action").and_then(|a| a.as_str()).map(|a| a.to_lowercase()) { o.insert("action".into(), json!(a)); } }
                        2 => { if o.get("action").and_then(|a| a.as_str()) == Some("CAPRETURN") { o.insert("action".into(), json!("Cap_Return")); } else { continue; } }
                        3 => { if let Some(a) = o.get("ticker").and_then(|a| a.as_str()).map(|a| a.to_lowercase()) { o.insert("ticker".into(), json!(a)); } }
                        4 => { let Some(mk) = money_key else { continue }; if o[mk]["currency"] == json!("GBP") { let a = o[mk]["amount"].clone(); o.insert(mk.into(), a); } else { continue; } }
                        5 => { let fk = ["fees", "tax_paid"].into_iter().find(|k| o.contains_key(*k)); let Some(fk) = fk else { continue }; o.remove(fk); }
                        6 => { o.insert("note".into(), json!("x")); }
                        7 => { let Some(mk) = money_key else { continue }; o[mk]["gbp"] = json!("1"); }
                        8 => { let Some(mk) = money_key else { continue }; o[mk].as_object_mut().map(|x| x.remove("currency")); }
                        9 => { let Some(mk) = money_key else { continue }; o[mk]["currency"] = json!(["ZZZ", "usd", ""][(i as usize) % 3]); }
                        10 => { let qk = ["amount", "ratio"].into_iter().find(|k| o.contains_key(*k)); let Some(qk) = qk else { continue }; o.insert(qk.into(), json!("0")); }
                        _ => { o.insert("date".into(), json!("2023-02-30")); }
                    }
                    ctx.ev.traces_validated += 1;
                    ctx.ev.count("json-reader-variants");
                    let real = match serde_json::from_value::<Transaction>(w.clone()) { Ok(t2) => format!("ok {}", dslgen::tx_wire(&t2)), Err(_) => "reject".to_string() };
                    let resp = m.ask(&format!("fromjson {} {}", json_codes(&w), jv_wire(&w)));
                    if resp == "unmodelled" || resp.starts_with("bad-request") { ctx.ev.count("json-reader-variants:outside-the-model"); continue; }
                    if resp != real {
                        ctx.ev.violation("correspondence", format!("the JSON reader and the Lean model disagree on a transaction value (variant {k})"), format!("# property C14\n# correspondence: serde_json::from_value::<Transaction> vs Json.fromJ\n# impl:  {real}\n# model: {resp}\n{w}\n"));
                    }
                    // the reader's documented liberties, judged without the model: variants 1–6 are the same transaction
                    if (1..=6).contains(&k) {
                        let base = if k == 5 { dslgen::drop_zero_label(t) } else { t.clone() };
                        let fee_zero = match &t.operation { Operation::Buy { fees, .. } | Operation::Sell { fees, .. } | Operation::CapReturn { fees, .. } => fees.amount.is_zero(), Operation::Dividend { tax_paid, .. } | Operation::Accumulation { tax_paid, .. } => tax_paid.amount.is_zero(), _ => true };
                        if (k != 5 || fee_zero) && real != format!("ok {}", dslgen::tx_wire(&base)) {
                            ctx.ev.violation("oracle", format!("a transaction value in an equivalent spelling (variant {k}: letter case of action or ticker, CAP_RETURN, bare-string pounds, omitted zero fee, extra key) is not read as the same transaction"), format!("# property C14\n# oracle: JSON reader\n# read as: {real}\n# expected: ok {}\n{w}\n", dslgen::tx_wire(&base)));
                        }
                    }
                }
            }
        }
        // (5) same report from all three
        if i % 4 == 0 {
            // arithmetic overflow on huge magnitudes panics inside calculate (known finding D9, C15):
            // such lists are not computable ledgers and are skipped here
            let calc = |t: &Vec<Transaction>| std::panic::catch_unwind(std::panic::AssertUnwindSafe(|| cgt_core::calculator::calculate(t, None, fx.as_ref(), &cfg)));
            let Ok(a) = calc(&txs) else { ctx.ev.count("report-skipped-overflow"); continue };
            let b = match cgt_core::parser::parse_file(&text).ok() { Some(t) => match calc(&t) { Ok(x) => Some(x), Err(_) => None }, None => None };
            let c = match serde_json::to_string(&txs).ok().and_then(|s| serde_json::from_str::<Vec<Transaction>>(&s).ok()) { Some(t) => match calc(&t) { Ok(x) => Some(x), Err(_) => None }, None => None };
            let strip = |r: Result<cgt_core::TaxReport, cgt_core::CgtError>| r.map(|mut x| { x.transactions.clear(); x }).map_err(|e| e.to_string().chars().take(40).collect::<String>());
            let a = strip(a);
            for (name, other) in [("DSL rendering", b), ("JSON rendering", c)] {
                if let Some(o) = other { let o = strip(o); if a.is_ok() != o.is_ok() || (a.is_ok() && a != o) { ctx.ev.violation("oracle", format!("the report of a ledger differs from the report of its {name}"), format!("# property C14\n# oracle: same report\n{text}\n")); } }
            }
            ctx.ev.count("report-triples");
        }
        if i < 2 { ctx.ev.sample(json!({"written": text})); }
    }
}

/// a JSON value on the model's wire: `S<hex6>` string, `N` other scalar or array, `O{k=v,…}` object with its
/// fields sorted by key
fn jv_wire(v: &serde_json::Value) -> String {
    match v {
        serde_json::Value::String(s) => format!("S{}", dslgen::hex6(s)),
        serde_json::Value::Object(o) => {
            let mut fs: Vec<String> = o.iter().map(|(k, x)| format!("{k}={}", jv_wire(x))).collect();
            fs.sort();
            format!("O{{{}}}", fs.join(","))
        }
        _ => "N".to_string(),
    }
}

/// the ISO codes among the `currency` strings of a value, as the model's list of valid codes
fn json_codes(v: &serde_json::Value) -> String {
    let mut out: Vec<String> = vec!["GBP".into()];
    if let Some(o) = v.as_object() {
        for x in o.values() {
            if let Some(c) = x.get("currency").and_then(|c| c.as_str()) { if cgt_money::Currency::from_code(c).is_some() && !out.iter().any(|y| y == c) { out.push(c.to_string()); } }
        }
    }
    out.join(";")
}
