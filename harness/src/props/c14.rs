//! C14 — transactions survive DSL and JSON round trips unchanged.
use super::*;
use crate::dslgen::{self, unhex6};
use crate::rng::Rng;
use cgt_core::Transaction;
use serde_json::json;

pub fn run(ctx: &mut Ctx) {
    let prop = "C14";
    ctx.ev.rule = "generated DSL-expressible transaction lists (seven kinds, decimals of every scale 0–28 and mantissas up to 2^96−1, ISO codes incl. 0- and 3-decimal currencies and, for one amount in six, any code the currency type accepts (withdrawn and superseded ones included), zero and non-zero optional clauses with and without a foreign label): (1) real writer output == Lean writer model, byte for byte; (2) parse(write(l)) == l up to the currency label of zero fees/taxes; (3) write is idempotent through parse; (4) serde JSON round trip is the identity; (5) the report of l, of parse(write(l)) and of its JSON round trip are equal (when l is a computable ledger). Non-trivial = lists with a non-GBP amount and a decimal of scale ≥ 5; distinct by written text.".into();
    let _ = prop;
    let mut r = Rng::new(ctx.seed ^ 0xC14);
    let n = ctx.n(600, 40_000);
    let ex = crate::run_impl::wide_exemptions();
    let cfg = crate::run_impl::config_from(&ex);
    let fx = cgt_money::load_default_cache().ok();
    for i in 0..n {
        ctx.ev.evaluations += 1;
        let k = 1 + r.below(6) as usize;
        let mut txs: Vec<Transaction> = (0..k).map(|_| dslgen::gen_tx(&mut r)).collect();
        for t in &mut txs { t.ticker = t.ticker.to_uppercase(); }
        let text = cgt_core::dsl::transactions_to_dsl(&txs);
        if txs.iter().any(|t| dslgen::tx_wire(t).contains(":USD") || dslgen::tx_wire(t).contains(":EUR")) && text.split(|c: char| !c.is_ascii_digit() && c != '.').any(|w| w.split('.').nth(1).map(|f| f.len() >= 5).unwrap_or(false)) { ctx.ev.nontrivial.insert(text.clone()); }
        // (1) writer vs model
        if let Some(m) = ctx.model.as_mut() {
            ctx.ev.traces_validated += 1;
            let resp = m.ask(&format!("write {}", txs.iter().map(dslgen::tx_wire).collect::<Vec<_>>().join(" ")));
            let mt = resp.strip_prefix("ok ").map(unhex6).unwrap_or_else(|| if resp == "ok" { String::new() } else { format!("<{resp}>") });
            if mt != text {
                ctx.ev.violation("correspondence", "the DSL writer's output differs from the Lean writer model".into(), format!("# property C14\n# correspondence: writer\n# impl:\n{text}\n# model:\n{mt}\n"));
            }
        }
        // (2) parse back
        let want: Vec<Transaction> = txs.iter().map(dslgen::drop_zero_label).collect();
        match cgt_core::parser::parse_file(&text) {
            Ok(back) => {
                if back != want {
                    let idx = back.iter().zip(&want).position(|(a, b)| a != b).unwrap_or(0);
                    ctx.ev.violation("oracle", format!("writing as DSL and parsing back changes transaction {}: {:?} became {:?}", idx + 1, want.get(idx), back.get(idx)), format!("# property C14\n# oracle: DSL round trip\n{text}\n"));
                }
                // (3) idempotent
                let again = cgt_core::dsl::transactions_to_dsl(&back);
                let text_norm = cgt_core::dsl::transactions_to_dsl(&want);
                if again != text_norm || text_norm != text {
                    ctx.ev.violation("oracle", "writing is not idempotent: write(parse(write(l))) differs from write(l)".into(), format!("# property C14\n# oracle: idempotence\n# first:\n{text}\n# second:\n{again}\n"));
                }
            }
            Err(e) => ctx.ev.violation("oracle", format!("the writer's own output does not parse: {}", e.to_string().lines().next().unwrap_or("")), format!("# property C14\n# oracle: write then parse\n{text}\n")),
        }
        // (4) JSON
        match serde_json::to_string(&txs).map_err(|e| e.to_string()).and_then(|s| serde_json::from_str::<Vec<Transaction>>(&s).map_err(|e| format!("{e} in {s}"))) {
            Ok(back) => if back != txs { ctx.ev.violation("oracle", "serialising to JSON and reading back changes a transaction".into(), format!("# property C14\n# oracle: JSON round trip\n{}\n", serde_json::to_string_pretty(&txs).unwrap_or_default())); },
            Err(e) => ctx.ev.violation("oracle", format!("the tool's own JSON does not read back: {e}"), format!("# property C14\n{text}\n")),
        }
        // (5) same report from all three
        if i % 4 == 0 {
            // arithmetic overflow on huge magnitudes panics inside calculate (known finding D9, C15):
            // such lists are not computable ledgers and are skipped here
            let calc = |t: &Vec<Transaction>| std::panic::catch_unwind(std::panic::AssertUnwindSafe(|| cgt_core::calculator::calculate(t, None, fx.as_ref(), &cfg)));
            let Ok(a) = calc(&txs) else { ctx.ev.count("report-skipped-overflow"); continue };
            let b = match cgt_core::parser::parse_file(&text).ok() { Some(t) => match calc(&t) { Ok(x) => Some(x), Err(_) => None }, None => None };
            let c = match serde_json::to_string(&txs).ok().and_then(|s| serde_json::from_str::<Vec<Transaction>>(&s).ok()) { Some(t) => match calc(&t) { Ok(x) => Some(x), Err(_) => None }, None => None };
            let strip = |r: Result<cgt_core::TaxReport, cgt_core::CgtError>| r.map(|mut x| { x.transactions.clear(); x }).map_err(|e| e.to_string().chars().take(40).collect::<String>());
            let a = strip(a);
            for (name, other) in [("DSL rendering", b), ("JSON rendering", c)] {
                if let Some(o) = other { let o = strip(o); if a.is_ok() != o.is_ok() || (a.is_ok() && a != o) { ctx.ev.violation("oracle", format!("the report of a ledger differs from the report of its {name}"), format!("# property C14\n# oracle: same report\n{text}\n")); } }
            }
            ctx.ev.count("report-triples");
        }
        if i < 2 { ctx.ev.sample(json!({"written": text})); }
    }
}
