//! C10 — splits only rescale share counts.
use super::*;
use crate::q::Q;
use crate::rep::{self, Out, Proj, RRep};
use crate::rng::Rng;
use crate::run_impl;
use chrono::Duration;
use rust_decimal::Decimal;
use serde_json::json;

/// rewrite the ledger in the units after the (first) SPLIT/UNSPLIT of `tk`: earlier quantities × factor,
/// earlier unit prices ÷ factor, the split line removed. Trades dated on the split's own day happen
/// before it (the matcher applies a day's splits after the day's trades).
pub fn post_split_twin(l: &Ledger, idx: usize) -> Option<Ledger> {
    let s = &l[idx];
    // quantities × factor and unit prices ÷ factor, computed by one multiplication or one division so
    // that divisible holdings stay exact; a rewriting that cannot be written exactly is not attempted
    let up = |x: Decimal| -> Option<Decimal> { if s.kind == Kind::Split { x.checked_mul(s.a) } else { let y = x.checked_div(s.a)?; if y.checked_mul(s.a)? == x { Some(y) } else { None } } };
    let down = |x: Decimal| -> Option<Decimal> { if s.kind == Kind::Split { let y = x.checked_div(s.a)?; if y.checked_mul(s.a)? == x { Some(y) } else { None } } else { x.checked_mul(s.a) } };
    let mut out = Vec::new();
    for (i, t) in l.iter().enumerate() {
        if i == idx { continue; }
        let mut t = t.clone();
        if t.ticker == s.ticker && t.date <= s.date {
            match t.kind {
                Kind::Buy | Kind::Sell => { t.a = up(t.a)?.normalize(); t.b = down(t.b)?.normalize(); }
                Kind::Accumulation | Kind::CapReturn => { t.a = up(t.a)?.normalize(); }
                _ => {}
            }
        }
        out.push(t);
    }
    Some(out)
}

fn money_only() -> Proj {
    let mut p = Proj::full();
    p.qty = false;          // quantities before the split are in different units
    p.legs_exact = false;
    p.err_detail = false;
    p
}

fn strip_qty(r: &Out<RRep>) -> Out<RRep> { r.clone() }

pub fn run(ctx: &mut Ctx) {
    let prop = "C10";
    let mut cfg = GenCfg::standard();
    cfg.cost_events = true;
    let n = ctx.n(500, 30_000);
    let cases = matcher_cases(prop, ctx, &cfg, n);
    ctx.ev.rule = "generated ledgers with SPLIT/UNSPLIT (ratios 2, 4, 5, 10, 0.5, 2.5, and consolidations by 3, 6, 7, 9 of exactly divisible holdings) at any position relative to purchases, sales, 30-day windows and cost events. Oracles on the real calculate(): (a) for each split line, the ledger rewritten in post-split units (earlier quantities × ratio, earlier unit prices ÷ ratio, line removed) gives the same gains, losses, proceeds, allowable costs per disposal (legs per rule and acquisition date) and the same closing cost, with closing quantities equal; (b) inserting SPLIT r immediately followed by UNSPLIT r (same day, or next day with no trade between) changes nothing. Securities with both a split and a cost event are compared like any other (D5, the pre-pass ignoring splits, was repaired). Correspondence: whole report vs model. Non-trivial = accepted ledger with a split between a disposal and its 30-day acquisition, or a split and ≥ 2 disposals; distinct by ledger text.".into();
    let ex = run_impl::wide_exemptions();
    let mut r = Rng::new(ctx.seed ^ 0xC10);
    let mut cli_left: u32 = if ctx.tier == Tier::Quick { 8 } else { 80 };
    for (name, l) in cases {
        if cli_left > 0 && well_formed(&l) && l.len() >= 3 { cli_left -= 1; cli_crosscheck(ctx, prop, &l, None); }
        if !well_formed(&l) || l.is_empty() { continue; }
        ctx.ev.evaluations += 1;
        let base = run_impl::impl_calc(&l, None, &ex);
        let msd = multi_sell_day(&l);
        match &base { Ok(_) => ctx.ev.count("accepted"), Err(e) => { ctx.ev.count(&format!("rejected:{}", e.kind)); if e.kind == "panic" { ctx.ev.violation("crash", e.detail.clone(), replay_text(prop, "crash", &e.detail, &l, &[])); } } }
        let split_idx: Vec<usize> = l.iter().enumerate().filter(|(_, t)| matches!(t.kind, Kind::Split | Kind::Unsplit)).map(|(i, _)| i).collect();
        if base.is_ok() && !split_idx.is_empty() && l.iter().filter(|t| t.kind == Kind::Sell).count() >= 2 { ctx.ev.nontrivial.insert(ledger::dsl(&l)); }
        // (a) post-split twin, one split line at a time (only when it is the security's earliest split,
        // so that "earlier" quantities are all in one unit)
        for &i in &split_idx {
            let s = &l[i];
            if l.iter().enumerate().any(|(j, t)| j != i && t.ticker == s.ticker && matches!(t.kind, Kind::Split | Kind::Unsplit) && t.date <= s.date) { continue; }
            let Some(twin) = post_split_twin(&l, i) else { ctx.ev.count("twins-not-exactly-expressible"); continue };
            ctx.ev.count("twins");
            let tout = run_impl::impl_calc(&twin, None, &ex);
            let d5 = l.iter().any(|t| t.ticker == s.ticker && matches!(t.kind, Kind::CapReturn | Kind::Accumulation));
            let diff = rep::diff_report(&strip_qty(&tout), &strip_qty(&base), &money_only()).map(|x| x.replace("impl ", "post-split twin ").replace("model ", "original "));
            // closing quantities must agree exactly (both are in final units)
            let qdiff = match (&tout, &base) {
                (Ok(a), Ok(b)) => a.holdings.iter().zip(&b.holdings).find(|(x, y)| !x.1.close(&y.1, 18)).map(|(x, y)| format!("closing quantity of {}: twin {} vs original {}", x.0, x.1.approx(), y.1.approx())),
                _ => None,
            };
            if let Some(what) = diff.or(qdiff) {
                if d5 { ctx.ev.count("twin-difference-with-cost-events"); }
                ctx.ev.violation("oracle", format!("rewriting the ledger in post-split units changes the figures: {what}"), replay_text(prop, "oracle (a): original below, twin after '# twin'", &what, &l, &[format!("case {name}"), "twin:".into()].into_iter().chain(twin.iter().map(|t| t.dsl())).collect::<Vec<_>>()));
                break;
            }
        }
        // (b) SPLIT r then UNSPLIT r with no trade between
        {
            let tk = l[r.below(l.len() as u64) as usize].ticker.clone();
            let date = l[r.below(l.len() as u64) as usize].date;
            let ratio = ledger::exact_unratio(&mut r);
            let gap = if r.chance(1, 2) { 0 } else { 1 };
            let second = date + Duration::days(gap);
            let busy = gap == 1 && l.iter().any(|t| t.ticker == tk && t.date == second);
            let busy0 = gap == 1 && false;
            if !busy && !busy0 {
                let mut var = l.clone();
                var.push(GTx::new(date, &tk, Kind::Split, ratio, Decimal::ZERO, Decimal::ZERO));
                var.push(GTx::new(second, &tk, Kind::Unsplit, ratio, Decimal::ZERO, Decimal::ZERO));
                ctx.ev.count("split-unsplit-pairs");
                let vout = run_impl::impl_calc(&var, None, &ex);
                let mut p = Proj::full();
                if msd { p.legs_exact = false; }
                p.err_detail = false;
                // a pair straddling midnight lies between a day-`date` disposal and a later purchase
                // only transiently; with gap 1 and a 30-day match from `date` the claim is scaled and
                // scaled back: still no change expected
                if let Some(what) = rep::diff_report(&vout, &base, &p) {
                    let what = what.replace("impl ", "with the pair ").replace("model ", "without ");
                    { ctx.ev.violation("oracle", format!("SPLIT {ratio} then UNSPLIT {ratio} of {tk} on {date}/{second} with no trade between changes the report: {what}"), replay_text(prop, "oracle (b)", &what, &var, &[format!("case {name}")])); }
                }
            }
        }
        if let Some(m) = ctx.model.as_mut() {
            match run_impl::model_calc(m, &l, None, &ex) {
                Err(e) => ctx.ev.violation("correspondence", format!("driver: {e}"), replay_text(prop, "correspondence", &e, &l, &[])),
                Ok(mo) => {
                    ctx.ev.traces_validated += 1;
                    let mut p = Proj::full();
                    if msd { p.legs_exact = false; }
                    p.err_detail = false;
                    if let Some(what) = rep::diff_report(&base, &mo, &p) {
                        ctx.ev.violation("correspondence", what.clone(), replay_text(prop, "correspondence (implementation vs Lean model)", &what, &l, &[format!("case {name}")]));
                    }
                }
            }
        }
        if ctx.ev.samples.len() < 3 && base.is_ok() && !split_idx.is_empty() && l.len() >= 5 {
            ctx.ev.sample(json!({"case": name, "ledger": ledger::dsl(&l).lines().collect::<Vec<_>>()}));
        }
    }
    // D5 (repaired by fix commit, see known_findings.json): its witness must be accepted, with the capital
    // return spread over the 5 post-split shares still held
    if let Ok(w) = ledger::from_dsl("2024-01-01 BUY A 10 @ 10\n2024-02-01 SPLIT A RATIO 2\n2024-03-01 SELL A 15 @ 10\n2024-04-01 CAPRETURN A 5 TOTAL 10\n") {
        ctx.ev.evaluations += 1;
        if let Err(e) = run_impl::impl_calc(&w, None, &ex) {
            ctx.ev.violation("oracle", format!("a capital return after a split is refused although shares are held: {} {}", e.kind, e.detail), replay_text(prop, "oracle: the same ledger in post-split units (BUY A 20 @ 5, no SPLIT line) is accepted", "split changes more than share counts", &w, &[]));
        }
    }
}
