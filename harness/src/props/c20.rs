//! C20 — the MCP server answers every request, statelessly.
use super::*;
use crate::cli;
use crate::rng::Rng;
use serde_json::{Value, json};
use std::io::{BufRead, BufReader, Write};
use std::process::{Command, Stdio};
use std::sync::mpsc;
use std::time::Duration;

const D15: &str = "D15: rmcp 0.11 sends no response at all to a request with an unknown method or to tools/call without params, and the server exits (status 0) on an input line that is not JSON";
const D9: &str = "D9: a calculation that overflows rust_decimal panics inside the request handler and that request is never answered (the server keeps answering others)";

pub struct Session { pub responses: Vec<Value>, pub exit_ok: bool, pub timed_out: bool }

/// run one session: handshake, then `reqs` (each a JSON-RPC request with an id), pipelined or one at a time
pub fn session(reqs: &[Value], pipelined: bool) -> Session { session_in(None, reqs, pipelined) }

/// the same with the server started in a given directory (which is also its HOME): the directory's
/// `config.toml` is then the one the server finds, as the CLI does when run there
pub fn session_in(dir: Option<&std::path::Path>, reqs: &[Value], pipelined: bool) -> Session {
    let mut cmd = Command::new(cli::bin());
    cmd.arg("mcp").stdin(Stdio::piped()).stdout(Stdio::piped()).stderr(Stdio::null());
    if let Some(d) = dir { cmd.current_dir(d).env("HOME", d); }
    let mut child = cmd.spawn().expect("start cgt-tool mcp");
    let mut stdin = child.stdin.take().expect("stdin");
    let stdout = child.stdout.take().expect("stdout");
    let (tx, rx) = mpsc::channel::<String>();
    let reader = std::thread::spawn(move || { for line in BufReader::new(stdout).lines().map_while(Result::ok) { if tx.send(line).is_err() { break; } } });
    let send = |stdin: &mut std::process::ChildStdin, v: &Value| { let _ = writeln!(stdin, "{}", v); let _ = stdin.flush(); };
    send(&mut stdin, &json!({"jsonrpc":"2.0","id":0,"method":"initialize","params":{"protocolVersion":"2024-11-05","capabilities":{},"clientInfo":{"name":"verif","version":"0"}}}));
    let mut responses = Vec::new();
    let mut timed_out = false;
    // wait for the initialize result
    match rx.recv_timeout(Duration::from_secs(10)) { Ok(_) => {}, Err(_) => { timed_out = true; } }
    send(&mut stdin, &json!({"jsonrpc":"2.0","method":"notifications/initialized"}));
    if pipelined {
        for r in reqs { send(&mut stdin, r); }
        let want = reqs.len();
        let deadline = std::time::Instant::now() + Duration::from_secs(20);
        while responses.len() < want {
            let left = deadline.saturating_duration_since(std::time::Instant::now());
            if left.is_zero() { timed_out = true; break; }
            match rx.recv_timeout(left.min(Duration::from_secs(3))) { Ok(l) => { if let Ok(v) = serde_json::from_str::<Value>(&l) { if v.get("id").is_some() { responses.push(v); } } }, Err(_) => { timed_out = true; break; } }
        }
    } else {
        for r in reqs {
            send(&mut stdin, r);
            match rx.recv_timeout(Duration::from_secs(5)) { Ok(l) => { if let Ok(v) = serde_json::from_str::<Value>(&l) { responses.push(v); } }, Err(_) => { timed_out = true; } }
        }
    }
    drop(stdin); // input closes: the server must stop
    let deadline = std::time::Instant::now() + Duration::from_secs(5);
    let mut exit_ok = false;
    loop {
        match child.try_wait() { Ok(Some(st)) => { exit_ok = st.success(); break; } Ok(None) => { if std::time::Instant::now() > deadline { let _ = child.kill(); let _ = child.wait(); break; } std::thread::sleep(Duration::from_millis(20)); } Err(_) => break }
    }
    while let Ok(l) = rx.try_recv() { if let Ok(v) = serde_json::from_str::<Value>(&l) { if v.get("id").is_some() { responses.push(v); } } }
    let _ = reader.join();
    Session { responses, exit_ok, timed_out }
}

pub fn call(id: u64, tool: &str, args: Value) -> Value { json!({"jsonrpc":"2.0","id":id,"method":"tools/call","params":{"name":tool,"arguments":args}}) }

pub fn result_text(v: &Value) -> Option<String> { v["result"]["content"][0]["text"].as_str().map(|s| s.to_string()) }

pub fn run(ctx: &mut Ctx) {
    let prop = "C20";
    ctx.ev.rule = "generated sessions of 4–14 JSON-RPC requests over the five tools and the resource methods (valid ledgers, uncovered ledgers, garbage text, wrong argument types, missing fields, unknown tools, bad currencies/months, unknown resource URIs), each run pipelined (all lines written at once, handled concurrently) and one at a time, against the real `cgt-tool mcp` process: every request id gets exactly one response (result or JSON-RPC error), no other ids appear, the server exits 0 when its input closes; the same request gives the same answer at any position, in either mode; calculate_report's JSON equals `cgt-tool report --format json` for the same text (tax years and holdings); every disposal it lists is explained by explain_matching with the legs the CLI reports (rule, exact quantity, acquisition date, cost and gain to the penny; the first session always carries a ledger whose 30-day matches cross 5 April and 31 December, and a ledger with disposals on 5 and 6 April of leap and ordinary years, 29 February and the calendar-year ends). With an exemption override file (./config.toml adding 2026 and changing 2024) the server and the CLI started in that directory give the same report. convert_to_dsl on the JSON that `cgt-tool parse` prints for mixed-currency ledgers (price, fees, total and tax each in its own currency): its DSL read back by the CLI is that JSON, and the CLI's report of it equals calculate_report's answer for the JSON. A single-year request asked after the all-years request of the same text must answer as in a fresh session and as the CLI's --year (years with and without disposals). Two sessions of 12–30 failing requests followed by good ones must answer the good ones as a fresh session does. Known-finding classes mcpUndecodable (D15) and overflowMagnitude (D9) are probed once per run and not mixed into the sessions. Non-trivial = sessions with ≥ 1 failing request followed by a succeeding one; distinct by request list.".into();
    if !cli::available() { ctx.ev.notes.push("cgt-tool binary not found: nothing checked".into()); ctx.ev.violation("correspondence", "cgt-tool binary missing".into(), "# property C20\n".into()); return; }
    let mut r = Rng::new(ctx.seed ^ 0xC20);
    let mut cfg = GenCfg::standard();
    cfg.max_tickers = 2; cfg.max_tx = 8;
    let n = ctx.n(10, 150);
    let mut canonical: std::collections::BTreeMap<String, String> = Default::default();
    for si in 0..n {
        let nreq = 4 + r.below(11);
        let mut reqs: Vec<Value> = Vec::new();
        let mut expect_cli: Vec<(u64, String)> = Vec::new();
        let mut explain: Vec<(u64, String)> = Vec::new();
        for k in 0..nreq {
            let id = 100 + k;
            let l = ledger::gen_ledger(&mut r, &cfg);
            let text = ledger::dsl(&l);
            reqs.push(match r.below(12) {
                0 | 1 | 2 => { expect_cli.push((id, text.clone())); call(id, "calculate_report", json!({"transactions": text})) }
                3 => call(id, "parse_transactions", json!({"transactions": text})),
                4 => call(id, "calculate_report", json!({"transactions": "2024-01-01 BUY A 1 @ 1\n2024-02-01 SELL A 5 @ 1"})),
                5 | 6 if r.chance(2, 3) => call(id, *r.pick(&["calculate_report", "parse_transactions", "convert_to_dsl"]), json!({"transactions": *r.pick(&["garbage", "", "[1,2", "[{\"date\":\"2024-01-01\"}]", "[{\"ticker\": \"AAPL\n\"}]", "[\n{\"date\": \"2024-01-01\"\n\"x\"}]", "[{\"a\":1,}]", "[\n\n]", "[{\"date\":\"2024-01-01\",\"ticker\":\"A\",\"action\":\"BUY\",\"amount\":\"1\",\"price\":\"1\"}]", "[{\"date\":\"2024-01-01\",\"ticker\":\"A\",\"action\":\"buy\",\"amount\":\"0\",\"price\":\"1\"}]", "[{\"date\":\"2024-01-01\",\n\"ticker\":\"A\",\"action\":\"SPLIT\"}]", "\u{feff}[]", "[\"\n"])})),
                6 => call(id, "calculate_report", json!({"transactions": 42})),
                7 => call(id, *r.pick(&["nope", "calculate", ""]), json!({})),
                8 => call(id, "get_fx_rate", json!({"currency": *r.pick(&["USD", "usd", "ZZZ", ""]), "year": *r.pick(&[2024, 2015, 1999, 2090]), "month": *r.pick(&[1, 6, 12, 0, 13])})),
                9 => { let sell = l.iter().find(|t| t.kind == Kind::Sell); match sell { Some(s) => { explain.push((id, text.clone())); call(id, "explain_matching", json!({"transactions": text, "ticker": s.ticker.to_lowercase(), "disposal_date": s.date.to_string()})) } None => call(id, "explain_matching", json!({"transactions": text, "ticker": "NONE", "disposal_date": "2024-13-40"})) } }
                10 => json!({"jsonrpc":"2.0","id":id,"method": *r.pick(&["resources/list", "tools/list"])}),
                _ => json!({"jsonrpc":"2.0","id":id,"method":"resources/read","params":{"uri": *r.pick(&["cgt://docs/dsl-syntax", "cgt://docs/tax-rules", "cgt://docs/none", "file:///etc/passwd"])}}),
            });
        }
        if si == 0 {
            // every run: disposals on both sides of 5/6 April in leap and ordinary years, 29 February,
            // year ends — each must be listed by calculate_report and explained by explain_matching
            let text = "2019-01-10 BUY AAA 1000 @ 1\n2020-04-05 SELL AAA 1 @ 2\n2020-04-06 SELL AAA 1 @ 2\n2023-04-05 SELL AAA 1 @ 2\n2023-04-06 SELL AAA 1 @ 2\n2024-02-29 SELL AAA 1 @ 2\n2024-04-05 SELL AAA 1 @ 2\n2024-04-06 SELL AAA 1 @ 2\n2024-12-31 SELL AAA 1 @ 2\n2025-01-01 SELL AAA 1 @ 2\n".to_string();
            let id = 100 + nreq;
            expect_cli.push((id, text.clone()));
            reqs.push(call(id, "calculate_report", json!({"transactions": text})));
            // a disposal in the last days of a tax year (and of a calendar year) re-acquired within 30 days in
            // the next one, and a same-day match: the explanation must be the CLI's, whichever years are involved
            let text2 = "2023-01-10 BUY ACME 100 @ 10\n2024-04-02 SELL ACME 40 @ 15\n2024-04-10 BUY ACME 30 @ 12\n2024-04-10 SELL ACME 5 @ 13\n2024-12-20 SELL ACME 20 @ 11\n2025-01-15 BUY ACME 50 @ 9.5\n".to_string();
            expect_cli.push((id + 50, text2.clone()));
            reqs.push(call(id + 50, "calculate_report", json!({"transactions": text2})));
            // non-empty ledgers without any trade (dividends only; an accumulation and a split only):
            // the CLI reports them, so must the server
            for (k, t) in ["2024-05-01 DIVIDEND AAA TOTAL 100 TAX 10\n2024-06-01 DIVIDEND BBB TOTAL 5 TAX 0\n", "2023-04-06 DIVIDEND AAA TOTAL 1.5 TAX 0\n", "2024-05-01 SPLIT AAA RATIO 2\n2024-05-02 DIVIDEND AAA TOTAL 7 TAX 1\n"].iter().enumerate() {
                let id2 = id + 1 + k as u64;
                expect_cli.push((id2, t.to_string()));
                reqs.push(call(id2, "calculate_report", json!({"transactions": t})));
            }
        }
        let key = format!("{:?}", reqs.iter().map(|v| v.to_string()).collect::<Vec<_>>());
        let mut texts: Vec<std::collections::BTreeMap<u64, String>> = Vec::new();
        for pipelined in [true, false] {
            ctx.ev.evaluations += 1;
            ctx.ev.count(if pipelined { "sessions:pipelined" } else { "sessions:sequential" });
            let s = session(&reqs, pipelined);
            let case = format!("# property C20\n# session ({})\n{}\n", if pipelined { "pipelined" } else { "one at a time" }, reqs.iter().map(|v| v.to_string()).collect::<Vec<_>>().join("\n"));
            let mut by_id: std::collections::BTreeMap<u64, Vec<&Value>> = Default::default();
            for v in &s.responses { if let Some(id) = v["id"].as_u64() { by_id.entry(id).or_default().push(v); } }
            for q in &reqs {
                let id = q["id"].as_u64().unwrap_or(0);
                let got = by_id.get(&id).map(|v| v.len()).unwrap_or(0);
                if got != 1 { ctx.ev.violation("oracle", format!("request id {id} ({}) received {got} responses", q["params"]["name"].as_str().or(q["method"].as_str()).unwrap_or("?")), case.clone()); }
            }
            for id in by_id.keys() { if *id != 0 && !reqs.iter().any(|q| q["id"].as_u64() == Some(*id)) { ctx.ev.violation("oracle", format!("a response carries id {id} which no request used"), case.clone()); } }
            if !s.exit_ok { ctx.ev.violation("oracle", "the server does not exit cleanly when its input closes".into(), case.clone()); }
            if s.timed_out { ctx.ev.count("sessions:timed-out"); }
            for v in &s.responses { if v.get("result").is_some() == v.get("error").is_some() && v["id"].as_u64() != Some(0) { ctx.ev.violation("oracle", "a response carries neither/both of result and error".into(), case.clone()); } }
            let mut t: std::collections::BTreeMap<u64, String> = Default::default();
            for (id, vs) in &by_id { if let Some(v) = vs.first() { t.insert(*id, result_text(v).unwrap_or_else(|| format!("error {} {}", v["error"]["code"], v["error"]["message"].as_str().unwrap_or("")))); } }
            // statelessness across sessions: the same request text must always get the same answer
            for q in &reqs { let id = q["id"].as_u64().unwrap_or(0); let mut qq = q.clone(); qq["id"] = json!(0); if let Some(ans) = t.get(&id) { let k = qq.to_string(); match canonical.get(&k) { Some(prev) => if prev != ans { ctx.ev.violation("oracle", "the same request receives different answers at different positions / in different sessions".into(), format!("# property C20\n# request\n{k}\n# answer A\n{prev}\n# answer B\n{ans}\n")); }, None => { canonical.insert(k, ans.clone()); } } } }
            texts.push(t);
        }
        if texts.len() == 2 && texts[0] != texts[1] { ctx.ev.violation("oracle", "pipelined and one-at-a-time runs of the same session give different answers".into(), format!("# property C20\n{key}\n")); }
        // equality with the CLI
        if let Some(t) = texts.first() {
            let mut fail_then_ok = false; let mut seen_fail = false;
            for q in &reqs { let id = q["id"].as_u64().unwrap_or(0); if let Some(a) = t.get(&id) { if a.starts_with("error") { seen_fail = true; } else if seen_fail { fail_then_ok = true; } } }
            if fail_then_ok { ctx.ev.nontrivial.insert(key.clone()); }
            for (id, text) in &expect_cli {
                let sc = cli::Scratch::new();
                sc.write("in.cgt", text);
                let o = cli::run(&sc, &["report", "in.cgt", "--format", "json"]);
                let ans = t.get(id).cloned().unwrap_or_default();
                ctx.ev.traces_validated += 1;
                if text.trim().is_empty() { continue; }
                match (o.code == Some(0), !ans.starts_with("error") && !ans.is_empty()) {
                    (true, true) => {
                        let a: Value = serde_json::from_slice(&o.stdout).unwrap_or_default();
                        let b: Value = serde_json::from_str(&ans).unwrap_or_default();
                        if a["tax_years"] != b["tax_years"] || a["holdings"] != b["holdings"] { ctx.ev.violation("oracle", "calculate_report's answer differs from `cgt-tool report --format json` for the same ledger".into(), format!("# property C20\n{text}")); }
                        // every listed disposal can be explained
                        let mut ex_reqs = Vec::new();
                        if let Some(ys) = b["tax_years"].as_array() { for y in ys { if let Some(ds) = y["disposals"].as_array() { for d in ds { ex_reqs.push(call(900 + ex_reqs.len() as u64, "explain_matching", json!({"transactions": text, "ticker": d["ticker"], "disposal_date": d["date"]}))); } } } }
                        if !ex_reqs.is_empty() && ex_reqs.len() <= 12 {
                            let s2 = session(&ex_reqs, true);
                            ctx.ev.count_n("explain-calls", ex_reqs.len() as u64);
                            for v in &s2.responses { if v.get("error").is_some() { ctx.ev.violation("oracle", format!("explain_matching cannot explain a disposal that calculate_report lists: {}", v["error"]["message"].as_str().unwrap_or("").lines().next().unwrap_or("")), format!("# property C20\n{text}")); } }
                            if s2.responses.len() != ex_reqs.len() { ctx.ev.violation("oracle", "an explain_matching request was not answered".into(), format!("# property C20\n{text}")); }
                            // … and the explanation is the disposal the CLI reports: same legs in the same order (rule,
                            // exact quantity, acquisition date), each cost and gain rounding to the CLI's pence figure
                            let cli_disposals: Vec<Value> = a["tax_years"].as_array().map(|ys| ys.iter().flat_map(|y| y["disposals"].as_array().cloned().unwrap_or_default()).collect()).unwrap_or_default();
                            for v in &s2.responses {
                                let Some(i) = v["id"].as_u64().and_then(|x| x.checked_sub(900)).map(|x| x as usize) else { continue };
                                let (Some(d), Some(et)) = (cli_disposals.get(i), result_text(v)) else { continue };
                                let e: Value = serde_json::from_str(&et).unwrap_or_default();
                                ctx.ev.count("explanations-compared-with-cli");
                                let dec = |x: &Value| x.as_str().and_then(|s| s.parse::<Decimal>().ok());
                                let rule = |s: &str| s.replace(' ', "").replace('&', "And");
                                let (em, dm) = (e["matches"].as_array().cloned().unwrap_or_default(), d["matches"].as_array().cloned().unwrap_or_default());
                                let mut bad: Option<String> = None;
                                if em.len() != dm.len() { bad = Some(format!("{} legs explained, {} reported", em.len(), dm.len())); }
                                for (x, y) in em.iter().zip(&dm) {
                                    if rule(x["rule"].as_str().unwrap_or("")) != y["rule"].as_str().unwrap_or("?") { bad = Some(format!("rule {} vs {}", x["rule"], y["rule"])); }
                                    if dec(&x["quantity"]) != dec(&y["quantity"]) { bad = Some(format!("quantity {} vs {}", x["quantity"], y["quantity"])); }
                                    if x.get("acquisition_date").and_then(|s| s.as_str()) != y.get("acquisition_date").and_then(|s| s.as_str()) { bad = Some(format!("acquisition date {} vs {}", x["acquisition_date"], y["acquisition_date"])); }
                                    for f in ["allowable_cost", "gain_or_loss"] {
                                        match (dec(&x[f]), dec(&y[f])) {
                                            (Some(p), Some(q)) if (p - q).abs() <= Decimal::new(5, 3) => {}
                                            _ => bad = Some(format!("{f} {} vs {}", x[f], y[f])),
                                        }
                                    }
                                }
                                if let Some(what) = bad {
                                    ctx.ev.violation("oracle", format!("explain_matching's answer for {} {} differs from what the CLI computes for the same ledger: {what}", d["date"].as_str().unwrap_or("?"), d["ticker"].as_str().unwrap_or("?")), format!("# property C20\n# explain_matching vs `cgt-tool report --format json`: {what}\n{text}"));
                                }
                            }
                        }
                    }
                    (false, false) => {}
                    (c, m) => {
                        // the CLI needs an exemption for every year; the MCP server uses the same embedded table
                        ctx.ev.violation("oracle", format!("CLI accepts={c} but MCP accepts={m} for the same ledger"), format!("# property C20\n{text}\n# mcp: {}\n# cli: {}", &ans[..ans.len().min(200)], o.stderr.lines().next().unwrap_or("")));
                    }
                }
            }
            let _ = &explain;
        }
        if si == 0 { ctx.ev.sample(json!({"session": reqs})); }
    }
    // an answer depends on its own arguments only: the single-year report of a ledger, asked after the all-years
    // report of the same text, is what a fresh session (and the CLI's --year) gives — also for a year that has
    // dividends and no disposal
    {
        let text = "2022-01-10 BUY ACME 100 @ 10\n2023-05-01 DIVIDEND ACME TOTAL 40 TAX 4\n2024-06-01 SELL ACME 40 @ 15\n2024-07-01 DIVIDEND ACME TOTAL 12 TAX 0\n".to_string();
        let answer = |s: &Session, id: u64| s.responses.iter().find(|v| v["id"].as_u64() == Some(id)).map(|v| result_text(v).unwrap_or_else(|| format!("error {}", v["error"]["message"].as_str().unwrap_or(""))));
        for y in [2023i64, 2024, 2021] {
            ctx.ev.evaluations += 1;
            ctx.ev.count("sessions:all-years-then-one-year");
            let fresh = session(&[call(1, "calculate_report", json!({"transactions": text, "year": y}))], false);
            let primed = session(&[call(1, "calculate_report", json!({"transactions": text})), call(2, "calculate_report", json!({"transactions": text, "year": y})), call(3, "calculate_report", json!({"transactions": text, "year": y}))], false);
            let (a, b, c) = (answer(&fresh, 1), answer(&primed, 2), answer(&primed, 3));
            if a.is_none() || a != b || a != c {
                ctx.ev.violation("oracle", format!("calculate_report for year {y} answers differently after an all-years request for the same ledger: {} vs {}", b.as_deref().unwrap_or("no answer").chars().take(120).collect::<String>(), a.as_deref().unwrap_or("no answer").chars().take(120).collect::<String>()), format!("# property C20\n# session: calculate_report(ledger), then calculate_report(ledger, year={y}); compared with a fresh session asking only the second\n{text}"));
            }
            let sc = cli::Scratch::new();
            sc.write("in.cgt", &text);
            let o = cli::run(&sc, &["report", "in.cgt", "--year", &y.to_string(), "--format", "json"]);
            if let (Some(ans), true) = (&a, o.code == Some(0)) {
                let av: Value = serde_json::from_str(ans).unwrap_or_default();
                let cv: Value = serde_json::from_slice(&o.stdout).unwrap_or_default();
                if av["tax_years"] != cv["tax_years"] { ctx.ev.violation("oracle", format!("calculate_report for year {y} differs from `cgt-tool report --year {y} --format json`"), format!("# property C20\n{text}")); }
            }
        }
    }
    // explain_matching can explain every disposal that a *year-filtered* calculate_report lists — also when the ledger
    // has disposals in another tax year for which no exemption is configured (the all-years report of such a ledger
    // fails; the single-year report and the explanation of its disposals must not). Seed C20-s10: explain_matching
    // computed the all-years report.
    {
        let answer = |s: &Session, id: u64| s.responses.iter().find(|v| v["id"].as_u64() == Some(id)).cloned();
        for (k, (early, far)) in [("2019-01-10", "2026-06-01"), ("2009-01-10", "2027-01-15"), ("2009-01-10", "2010-06-01"), ("2019-01-10", "2031-04-06")].iter().enumerate() {
            ctx.ev.evaluations += 1;
            ctx.ev.count("sessions:year-filter-next-to-unsupported-year");
            let mut lines = vec![format!("{early} BUY ACME 100 @ 10"), "2024-06-01 SELL ACME 40 @ 15".to_string(), "2024-06-20 BUY ACME 5 @ 14".to_string(), "2025-04-05 SELL ACME 3 @ 16 FEES 1".to_string(), format!("{far} SELL ACME 10 @ 20")];
            if k % 2 == 1 { lines.swap(1, 4); }
            let text = lines.join("\n") + "\n";
            let s1 = session(&[call(1, "calculate_report", json!({"transactions": text, "year": 2024}))], false);
            let Some(a) = answer(&s1, 1) else { ctx.ev.violation("oracle", "calculate_report(year=2024) was not answered".into(), format!("# property C20\n{text}")); continue };
            let Some(body) = result_text(&a) else { ctx.ev.violation("oracle", format!("calculate_report(year=2024) fails on a ledger whose 2024/25 disposals are covered: {}", a["error"]["message"].as_str().unwrap_or("").lines().next().unwrap_or("")), format!("# property C20\n{text}")); continue };
            let b: Value = serde_json::from_str(&body).unwrap_or_default();
            let mut ex_reqs = vec![];
            if let Some(ys) = b["tax_years"].as_array() { for y in ys { if let Some(ds) = y["disposals"].as_array() { for d in ds { ex_reqs.push(call(700 + ex_reqs.len() as u64, "explain_matching", json!({"transactions": text, "ticker": d["ticker"], "disposal_date": d["date"]}))); } } } }
            if ex_reqs.len() != 2 { ctx.ev.violation("oracle", format!("calculate_report(year=2024) lists {} disposals, the ledger has two in 2024/25", ex_reqs.len()), format!("# property C20\n{text}")); }
            if ex_reqs.is_empty() { continue; }
            let s2 = session(&ex_reqs, k % 2 == 0);
            for rq in &ex_reqs {
                let id = rq["id"].as_u64().unwrap_or(0);
                match answer(&s2, id) {
                    None => ctx.ev.violation("oracle", "an explain_matching request was not answered".into(), format!("# property C20\n{text}")),
                    Some(v) if v.get("error").is_some() => ctx.ev.violation("oracle", format!("explain_matching cannot explain the {} disposal that calculate_report(year=2024) lists: {}", rq["params"]["arguments"]["disposal_date"].as_str().unwrap_or("?"), v["error"]["message"].as_str().unwrap_or("").lines().filter(|l| !l.trim().is_empty()).nth(1).unwrap_or("")), format!("# property C20\n# session: calculate_report(ledger, year=2024), then explain_matching for each disposal it lists\n{text}")),
                    Some(_) => {}
                }
            }
        }
    }
    // a long run of failures must leave no trace: 12–30 failing requests of every kind (unparsable and empty
    // ledgers, uncovered sales, unknown disposals, wrong argument types) to calculate_report and
    // explain_matching, then the same good requests as in a fresh session — same answers, equal to the CLI's
    {
        let good = "2023-01-10 BUY ACME 100 @ 10\n2023-06-01 SELL ACME 40 @ 15\n".to_string();
        let fresh = session(&[call(1, "calculate_report", json!({"transactions": good})), call(2, "explain_matching", json!({"transactions": good, "ticker": "ACME", "disposal_date": "2023-06-01"}))], false);
        let answer = |s: &Session, id: u64| s.responses.iter().find(|v| v["id"].as_u64() == Some(id)).map(|v| result_text(v).unwrap_or_else(|| format!("error {}", v["error"]["message"].as_str().unwrap_or(""))));
        let mut rr = Rng::new(ctx.seed ^ 0xC20F);
        for pipelined in [false, true] {
            let n = 12 + rr.below(19);
            let mut reqs = Vec::new();
            for k in 0..n {
                let id = 3000 + k;
                reqs.push(match rr.below(6) {
                    0 => call(id, "calculate_report", json!({"transactions": "this is not a ledger"})),
                    1 => call(id, "calculate_report", json!({"transactions": ""})),
                    2 => call(id, "explain_matching", json!({"transactions": "garbage", "ticker": "A", "disposal_date": "2024-01-01"})),
                    3 => call(id, "explain_matching", json!({"transactions": "", "ticker": "A", "disposal_date": "2024-01-01"})),
                    4 => call(id, "calculate_report", json!({"transactions": "2024-01-01 SELL ACME 5 @ 1\n"})),
                    _ => call(id, "explain_matching", json!({"transactions": good, "ticker": "NOPE", "disposal_date": "2023-06-01"})),
                });
            }
            reqs.push(call(4001, "calculate_report", json!({"transactions": good})));
            reqs.push(call(4002, "explain_matching", json!({"transactions": good, "ticker": "ACME", "disposal_date": "2023-06-01"})));
            ctx.ev.evaluations += 1;
            ctx.ev.count("sessions:failures-then-success");
            let s = session(&reqs, pipelined);
            for (late, early) in [(4001u64, 1u64), (4002, 2)] {
                let (a, b) = (answer(&s, late), answer(&fresh, early));
                if a.is_none() || a != b || a.as_deref().map(|x| x.starts_with("error")).unwrap_or(true) {
                    ctx.ev.violation("oracle", format!("after {n} failing requests a good request is answered differently than in a fresh session: {} vs {}", a.as_deref().unwrap_or("no answer").lines().next().unwrap_or(""), b.as_deref().unwrap_or("no answer").lines().next().unwrap_or("")), format!("# property C20\n# session ({}): {n} failing requests, then the good ones\n{}\n", if pipelined { "pipelined" } else { "one at a time" }, reqs.iter().map(|v| v.to_string()).collect::<Vec<_>>().join("\n")));
                    break;
                }
            }
        }
    }
    // convert_to_dsl against the CLI: a JSON ledger (what `cgt-tool parse` prints) converted by the MCP tool
    // must be the DSL of that very ledger — read back by `cgt-tool parse` it is the same JSON, and the CLI's
    // report of it is calculate_report's answer for the JSON. Prices, fees, totals and tax each in its own
    // currency (the bundled rates cover them).
    {
        let mut rc = Rng::new(ctx.seed ^ 0xC2_0D51);
        for k in 0..ctx.n(6, 60) {
            let y = 2017 + rc.below(7) as i32;
            let cur = |r: &mut Rng| *r.pick(&["GBP", "USD", "EUR", "GBP", "CHF"]);
            let (c1, c2, c3, c4, c5, c6) = (cur(&mut rc), cur(&mut rc), cur(&mut rc), cur(&mut rc), cur(&mut rc), cur(&mut rc));
            let text = format!("{y}-01-10 BUY ACME {} @ {} {c1} FEES {} {c2}\n{y}-03-01 DIVIDEND ACME TOTAL {} {c5} TAX {} {c6}\n{y}-06-01 SELL ACME {} @ {} {c3} FEES {} {c4}\n",
                100 + rc.below(50), Decimal::new(rc.range(100, 5000), 2), Decimal::new(rc.range(1, 3000), 2), Decimal::new(rc.range(100, 9000), 2), Decimal::new(rc.range(1, 500), 2), 1 + rc.below(90), Decimal::new(rc.range(100, 5000), 2), Decimal::new(rc.range(1, 3000), 2));
            let sc = cli::Scratch::new();
            sc.write("in.cgt", &text);
            let parsed = cli::run(&sc, &["parse", "in.cgt"]);
            if parsed.code != Some(0) { continue; }
            let jtext = String::from_utf8_lossy(&parsed.stdout).to_string();
            ctx.ev.evaluations += 1;
            ctx.ev.count("convert_to_dsl-round-trips");
            let s = session(&[call(1, "convert_to_dsl", json!({"transactions": jtext})), call(2, "calculate_report", json!({"transactions": jtext}))], k % 2 == 0);
            let case = format!("# property C20\n# oracle: MCP convert_to_dsl / calculate_report on the JSON that `cgt-tool parse` prints for this ledger, against the CLI\n{text}");
            let Some(dsl) = s.responses.iter().find(|v| v["id"].as_u64() == Some(1)).and_then(result_text) else { ctx.ev.violation("oracle", "convert_to_dsl gives no result for a JSON ledger the CLI printed".into(), case); continue };
            sc.write("back.cgt", &dsl);
            let back = cli::run(&sc, &["parse", "back.cgt"]);
            let (ja, jb): (Value, Value) = (serde_json::from_slice(&parsed.stdout).unwrap_or_default(), serde_json::from_slice(&back.stdout).unwrap_or_default());
            if back.code != Some(0) || ja != jb {
                ctx.ev.violation("oracle", "convert_to_dsl's DSL, read by `cgt-tool parse`, is not the ledger it was given".into(), format!("{case}# convert_to_dsl answered:\n{}", dsl.lines().map(|l| format!("#   {l}\n")).collect::<String>()));
                continue;
            }
            let cli_rep = cli::run(&sc, &["report", "back.cgt", "--format", "json"]);
            let mcp_rep = s.responses.iter().find(|v| v["id"].as_u64() == Some(2)).and_then(result_text);
            match (cli_rep.code == Some(0), mcp_rep) {
                (true, Some(m)) => {
                    let (a, b): (Value, Value) = (serde_json::from_slice(&cli_rep.stdout).unwrap_or_default(), serde_json::from_str(&m).unwrap_or_default());
                    if a["tax_years"] != b["tax_years"] || a["holdings"] != b["holdings"] { ctx.ev.violation("oracle", "calculate_report on a JSON ledger differs from the CLI's report of convert_to_dsl's DSL for it".into(), case); }
                }
                (false, Some(m)) if !m.starts_with("error") && serde_json::from_str::<Value>(&m).map(|v| v.get("tax_years").is_some()).unwrap_or(false) => ctx.ev.violation("oracle", "the CLI refuses the converted ledger that calculate_report reports on".into(), case),
                _ => {}
            }
        }
    }
    // an exemption override file in the working directory: the server and the CLI, started in the same
    // directory, must both use it — a year the file adds, and a year whose amount it changes
    {
        let sc = cli::Scratch::new();
        sc.write("config.toml", "[exemptions]\n\"2026\" = 3100\n\"2024\" = 4321\n");
        for (k, text) in ["2026-05-01 BUY ACME 100 @ 10\n2026-09-01 SELL ACME 40 @ 15\n", "2024-05-01 BUY ACME 100 @ 10\n2024-09-01 SELL ACME 40 @ 15\n"].iter().enumerate() {
            ctx.ev.evaluations += 1;
            ctx.ev.count("config-override-sessions");
            sc.write("in.cgt", text);
            let cli_rep = cli::run(&sc, &["report", "in.cgt", "--format", "json"]);
            let s = session_in(Some(&sc.dir), &[call(1, "calculate_report", json!({"transactions": text}))], k == 0);
            let ans = s.responses.iter().find(|v| v["id"].as_u64() == Some(1)).and_then(result_text);
            let case = format!("# property C20\n# oracle: ./config.toml holds [exemptions] \"2026\" = 3100, \"2024\" = 4321; `cgt-tool report in.cgt --format json` and MCP calculate_report started in that directory\n{text}");
            match (cli_rep.code == Some(0), ans) {
                (true, Some(m)) => {
                    let (a, b): (Value, Value) = (serde_json::from_slice(&cli_rep.stdout).unwrap_or_default(), serde_json::from_str(&m).unwrap_or_default());
                    if a["tax_years"] != b["tax_years"] || a["holdings"] != b["holdings"] { ctx.ev.violation("oracle", "with an exemption override file in the working directory, calculate_report differs from the CLI's report".into(), case); }
                }
                (true, None) => ctx.ev.violation("oracle", "with an exemption override file in the working directory, the CLI reports but calculate_report answers with an error".into(), case),
                (false, Some(m)) if serde_json::from_str::<Value>(&m).map(|v| v.get("tax_years").is_some()).unwrap_or(false) => ctx.ev.violation("oracle", "calculate_report reports where the CLI, in the same directory, refuses".into(), case),
                _ => {}
            }
        }
    }
    // every malformed-JSON spelling through every text-taking tool, in one pipelined session
    {
        let bad = ["garbage", "", "[1,2", "[{\"date\":\"2024-01-01\"}]", "[{\"ticker\": \"AAPL\n\"}]", "[\n{\"date\": \"2024-01-01\"\n\"x\"}]", "[{\"a\":1,}]", "[\n\n]", "[{\"date\":\"2024-01-01\",\n\"ticker\":\"A\",\"action\":\"SPLIT\"}]", "\u{feff}[]", "[\"\n", "[\n", "{\n}", "[{\"date\":\"2024-01-01\",\"ticker\":\"A\n\",\"action\":\"BUY\",\"amount\":\"1\",\"price\":\"1\"}]"];
        let mut reqs = Vec::new();
        for tool in ["calculate_report", "parse_transactions", "convert_to_dsl"] { for b in bad { reqs.push(call(2000 + reqs.len() as u64, tool, json!({"transactions": b}))); } }
        ctx.ev.evaluations += 1;
        let s = session(&reqs, true);
        let ids: Vec<u64> = s.responses.iter().filter_map(|v| v["id"].as_u64()).collect();
        for q in &reqs { let id = q["id"].as_u64().unwrap_or(0); let n = ids.iter().filter(|x| **x == id).count(); if n != 1 { ctx.ev.violation("oracle", format!("malformed-input request id {id} ({} with transactions {:?}) received {n} responses", q["params"]["name"].as_str().unwrap_or("?"), q["params"]["arguments"]["transactions"].as_str().unwrap_or("")), format!("# property C20\n{}\n", q)); } }
        if !s.exit_ok { ctx.ev.violation("oracle", "the server does not exit cleanly after the malformed-input session".into(), "# property C20\n# malformed-input session\n".into()); }
    }
    // known-finding probes
    {
        let probe = vec![json!({"jsonrpc":"2.0","id":501,"method":"bogus/method"}), json!({"jsonrpc":"2.0","id":502,"method":"tools/list"})];
        let s = session(&probe, true);
        let ids: Vec<u64> = s.responses.iter().filter_map(|v| v["id"].as_u64()).collect();
        if !ids.contains(&501) { ctx.ev.known("mcpUndecodable", D15); }
        if !ids.contains(&502) { ctx.ev.violation("oracle", "a well-formed request after an unknown-method request is not answered".into(), "# property C20\n# probe: bogus/method then tools/list\n".into()); }
        let probe = vec![call(601, "calculate_report", json!({"transactions": "2024-01-01 BUY A 1000000000000000 @ 1000000000000000\n2024-02-01 SELL A 1 @ 1"})), json!({"jsonrpc":"2.0","id":602,"method":"tools/list"})];
        let s = session(&probe, true);
        let ids: Vec<u64> = s.responses.iter().filter_map(|v| v["id"].as_u64()).collect();
        if !ids.contains(&601) { ctx.ev.known("overflowMagnitude", D9); }
        if !ids.contains(&602) { ctx.ev.violation("oracle", "a well-formed request after a panicking calculation is not answered".into(), "# property C20\n# probe: overflow then tools/list\n".into()); }
    }
}
