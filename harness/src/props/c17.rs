//! C17 — the front-ends present the same figures.
use super::*;
use crate::dslgen::unhex6;
use crate::q::Q;
use crate::rng::Rng;
use crate::run_impl;
use cgt_format::Formatter;
use rust_decimal::Decimal;
use serde_json::json;

/// independent rounding: half away from zero at 2 dp, on exact rationals
fn half_away_pence(x: &Q) -> Q {
    let hundred = Q::int(100);
    let s = x.abs().mul(&hundred);
    // floor
    let fl = { use num_integer::Integer; Q::new(s.n.div_floor(&s.d), 1.into()) };
    let frac = s.sub(&fl);
    let r = if Q::new(1.into(), 2.into()).le(&frac) { fl.add(&Q::int(1)) } else { fl };
    let r = r.div(&hundred);
    if x.is_neg() { r.neg() } else { r }
}

fn parse_gbp(s: &str) -> Option<Q> {
    let neg = s.starts_with('-');
    let body = s.trim_start_matches('-');
    let body = body.strip_prefix('£')?;
    // shape: groups of three
    let (ip, fp) = body.split_once('.')?;
    if fp.len() != 2 || !fp.chars().all(|c| c.is_ascii_digit()) { return None; }
    let groups: Vec<&str> = ip.split(',').collect();
    if groups.is_empty() || groups[0].is_empty() || groups[0].len() > 3 || groups.iter().skip(1).any(|g| g.len() != 3) || !groups.iter().all(|g| g.chars().all(|c| c.is_ascii_digit())) { return None; }
    if groups.len() > 1 && groups[0].starts_with('0') { return None; }
    let q = Q::parse(&format!("{}{}/100", groups.concat(), fp))?;
    Some(if neg { q.neg() } else { q })
}

/// independent rounding at k decimals, half away from zero
fn half_away_at(x: &Q, k: u32) -> Q {
    let p = Q::new(num_bigint::BigInt::from(10u32).pow(k), 1.into());
    let s = x.abs().mul(&p);
    let fl = { use num_integer::Integer; Q::new(s.n.div_floor(&s.d), 1.into()) };
    let frac = s.sub(&fl);
    let r = if Q::new(1.into(), 2.into()).le(&frac) { fl.add(&Q::int(1)) } else { fl };
    let r = r.div(&p);
    if x.is_neg() { r.neg() } else { r }
}

/// a figure "[-]ddd[.ddd] CODE" with exactly k decimals
fn parse_foreign(s: &str, code: &str, k: u32) -> Option<Q> {
    let body = s.strip_suffix(code)?.strip_suffix(' ')?;
    let neg = body.starts_with('-');
    let digits = body.trim_start_matches('-');
    let (ip, fp) = match digits.split_once('.') { Some((i, f)) => (i, f), None => (digits, "") };
    if fp.len() != k as usize || ip.is_empty() || !ip.chars().all(|c| c.is_ascii_digit()) || !fp.chars().all(|c| c.is_ascii_digit()) { return None; }
    if (k == 0) != !digits.contains('.') { return None; }
    let q = Q::parse(&format!("{}{}/1{}", ip, fp, "0".repeat(fp.len())))?;
    Some(if neg { q.neg() } else { q })
}

const CODES: &[&str] = &["USD", "EUR", "JPY", "KWD", "CHF", "BHD", "KRW", "CLF"];

fn gen_foreign(r: &mut Rng, k: u32) -> Decimal {
    let sign = if r.chance(1, 4) { -1 } else { 1 };
    let v = match r.below(5) {
        0 | 1 => Decimal::new(r.range(0, 2_000_000) * 10 + 5, k + 1),                       // exactly on a half unit
        2 => Decimal::new(r.range(0, 2_000_000) * 100 + *r.pick(&[49i64, 50, 51]), k + 2),  // around it
        3 => Decimal::new(r.range(0, 100_000_000), k),
        _ => Decimal::new(r.range(0, 10_000_000_000), 6),
    };
    v * Decimal::from(sign)
}

fn check_foreign(ctx: &mut Ctx, code: &str, v: Decimal) {
    use cgt_money::{Currency, CurrencyAmount};
    let Some(cur) = Currency::from_code(code) else { return };
    ctx.ev.evaluations += 1;
    let amt = CurrencyAmount::new(v, cur);
    let k = amt.minor_units() as u32;
    let q = Q::from_dec(v);
    let want = half_away_at(&q, k);
    let text = cgt_format::format_currency_amount(&amt);
    ctx.ev.count(&format!("foreign:{code}(exp {k})"));
    let scaled = v * Decimal::from(10i64.pow(k + 1));
    if scaled.fract().is_zero() && (scaled % Decimal::from(10)).abs() == Decimal::from(5) { ctx.ev.count("foreign-midpoints"); ctx.ev.nontrivial.insert(format!("{v} {code}")); }
    match parse_foreign(&text, code, k) {
        None => ctx.ev.violation("oracle", format!("format_currency_amount({v} {code}) = '{text}' is not '[-]digits[.{k} digits] {code}'"), format!("# property C17\n# oracle: foreign-currency figure\nvalue {v} {code}\n")),
        Some(shown) => if !shown.eq(&want) { ctx.ev.violation("oracle", format!("text shows '{text}' for {v} {code}; rounding to {k} decimals with midpoints away from zero gives {}", want.approx()), format!("# property C17\n# oracle: foreign-currency figure as echoed in the text report's ASSET EVENTS section\n# e.g. a ledger line: 2023-06-15 DIVIDEND ACME TOTAL {} {code} TAX 0 {code}\nvalue {v} {code}\n", v.abs())); },
    }
    if let Some(m) = ctx.model.as_mut() {
        ctx.ev.traces_validated += 1;
        let a = m.ask(&format!("fmtcur {code} {k} {}", q.wire()));
        let mt = a.strip_prefix("ok ").map(unhex6).unwrap_or(a.clone());
        if mt != text { ctx.ev.violation("correspondence", format!("format_currency_amount({v} {code}): impl '{text}' vs model '{mt}'"), format!("# property C17\n# correspondence: fmtcur\nvalue {v} {code}\n")); }
    }
}

/// all `£` figures of the PDF's text runs, in order (sign: ASCII '-' or U+2212 before the '£')
fn pdf_money_figures(runs: &[String]) -> Result<Vec<(Q, String)>, String> {
    let mut out = Vec::new();
    for (ri, run) in runs.iter().enumerate() {
        let cs: Vec<char> = run.chars().collect();
        let mut i = 0;
        while i < cs.len() {
            if cs[i] == '£' {
                // a long negative figure in a narrow table cell wraps after its sign: the sign is then a run of its own
                let sign_run_before = i == 0 && ri > 0 && runs[ri - 1] == "\u{2212}"; // (an ASCII "-" run is the empty-cell placeholder of the asset-event table)
                let neg = sign_run_before || i > 0 && (cs[i - 1] == '-' || cs[i - 1] == '\u{2212}');
                let mut j = i + 1;
                while j < cs.len() && (cs[j].is_ascii_digit() || cs[j] == ',') { j += 1; }
                if j < cs.len() && cs[j] == '.' { j += 1; while j < cs.len() && cs[j].is_ascii_digit() { j += 1; } }
                let fig: String = cs[i..j].iter().collect();
                match parse_gbp(&fig) { Some(q) => out.push((if neg { q.neg() } else { q }, format!("{}{fig}", if neg { "-" } else { "" }))), None => return Err(format!("'{fig}' in the PDF run {run:?} is not of the form £d,ddd.dd")) }
                i = j;
            } else { i += 1; }
        }
    }
    Ok(out)
}

/// the monetary values the PDF template prints, in template order, computed exactly
fn pdf_expected_money(rep: &cgt_core::TaxReport) -> Vec<(Q, String)> {
    let q = |d: Decimal| Q::from_dec(d);
    let mut v: Vec<(Q, String)> = Vec::new();
    for y in &rep.tax_years {
        let label = cgt_format::format_tax_year(y.period.start_year());
        for (name, x) in [("net gain", y.net_gain), ("total gain", y.total_gain), ("total loss", y.total_loss), ("gross proceeds", y.gross_proceeds()), ("exemption", y.exempt_amount), ("taxable gain", y.taxable_gain(y.exempt_amount))] { v.push((q(x), format!("summary {label} {name}"))); }
    }
    // quotients shown by the report (unit costs, unit prices, average costs) are computed values of the
    // implementation: 28-digit decimal divisions; the figure shown is that value rounded to pence
    let dq = |a: Decimal, b: Decimal| -> Q { if b.is_zero() { Q::zero() } else { a.checked_div(b).map(Q::from_dec).unwrap_or_else(|| Q::from_dec(a).div(&Q::from_dec(b))) } };
    for y in &rep.tax_years {
        for d in &y.disposals {
            let c = format!("{} {}", d.date, d.ticker);
            let gain = q(d.net_gain_or_loss());
            v.push((gain.abs(), format!("{c} header result")));
            for m in &d.matches { if m.rule == cgt_core::MatchRule::Section104 { v.push((dq(m.allowable_cost, m.quantity), format!("{c} Section 104 unit cost"))); } }
            v.push((dq(d.gross_proceeds, d.quantity), format!("{c} unit price")));
            v.push((q(d.gross_proceeds), format!("{c} gross proceeds")));
            let fees = q(d.gross_proceeds).sub(&q(d.proceeds));
            if fees.is_pos() { v.push((q(d.gross_proceeds), format!("{c} gross proceeds (net line)"))); v.push((fees, format!("{c} sale fees"))); v.push((q(d.proceeds), format!("{c} net proceeds"))); }
            v.push((q(d.total_allowable_cost()), format!("{c} cost")));
            v.push((gain, format!("{c} result")));
        }
    }
    let mut hs: Vec<&cgt_core::Section104Holding> = rep.holdings.iter().filter(|h| h.quantity > Decimal::ZERO).collect();
    hs.sort_by(|a, b| a.ticker.cmp(&b.ticker));
    for h in hs { v.push((dq(h.total_cost, h.quantity), format!("holding {} average cost", h.ticker))); }
    let mut txs: Vec<&cgt_core::Transaction> = rep.transactions.iter().collect();
    txs.sort_by(|a, b| (a.date, &a.ticker).cmp(&(b.date, &b.ticker)));
    for t in txs.iter() { match &t.operation { cgt_core::Operation::Buy { price, fees, .. } | cgt_core::Operation::Sell { price, fees, .. } => { if price.is_gbp() { v.push((q(price.amount), format!("{} {} price", t.date, t.ticker))); } if fees.is_gbp() { v.push((q(fees.amount), format!("{} {} fees", t.date, t.ticker))); } } _ => {} } }
    for t in txs.iter() { match &t.operation { cgt_core::Operation::Dividend { total_value, .. } | cgt_core::Operation::Accumulation { total_value, .. } | cgt_core::Operation::CapReturn { total_value, .. } => { if total_value.is_gbp() { v.push((q(total_value.amount), format!("{} {} event value", t.date, t.ticker))); } } _ => {} } }
    v
}

/// PDF leg: every `£` figure of the compiled document against the exact value rounded to pence,
/// plus the structural strings (years, disposal headers, legs, dates, quantities)
fn check_pdf(ctx: &mut Ctx, name: &str, l: &Ledger, rep: &cgt_core::TaxReport) {
    let prop = "C17";
    let runs = match cgt_formatter_pdf::verif_text_runs(rep) { Ok(r) => r, Err(e) => { ctx.ev.violation("oracle", format!("the PDF cannot be produced for a report the other front-ends show: {e}"), replay_text(prop, "oracle: PDF", "typst", l, &[format!("case {name}")])); return; } };
    ctx.ev.count("pdf-documents");
    let figs = match pdf_money_figures(&runs) { Ok(f) => f, Err(e) => { ctx.ev.violation("oracle", e, replay_text(prop, "oracle: PDF figure shape", "shape", l, &[format!("case {name}")])); return; } };
    let want = pdf_expected_money(rep);
    ctx.ev.count_n("pdf-figures", figs.len() as u64);
    if figs.len() != want.len() {
        ctx.ev.violation("oracle", format!("the PDF shows {} monetary figures, the report has {} to show", figs.len(), want.len()), replay_text(prop, "oracle: PDF lists", "figure count", l, &[format!("case {name}")]));
        return;
    }
    for ((shown, fig), (exact, what)) in figs.iter().zip(&want) {
        let r = half_away_pence(exact);
        if shown.eq(&r) { continue; }
        ctx.ev.violation("oracle", format!("PDF {what}: shows {fig} for {}; pence with midpoints away from zero is {}", exact.approx(), r.approx()), replay_text(prop, "oracle: PDF figure (text runs of the compiled Typst document)", what, l, &[format!("case {name}")]));
        return;
    }
    // model correspondence on the same figures (Lean fmtGbp; the PDF's U+2212 and its sign on a zero result are presentation)
    if let Some(m) = ctx.model.as_mut() {
        for ((shown, fig), (exact, what)) in figs.iter().zip(&want) {
            ctx.ev.traces_validated += 1;
            let a = m.ask(&format!("fmtgbp {}", exact.wire()));
            let mt = a.strip_prefix("ok ").map(unhex6).unwrap_or(a.clone());
            let mq = parse_gbp(&mt);
            if mq.as_ref().map(|x| x.eq(shown)).unwrap_or(false) { continue; }
            if half_away_pence(exact).eq(shown) { ctx.ev.violation("correspondence", format!("PDF {what}: {fig} vs model {mt}"), replay_text(prop, "correspondence: PDF figure vs Lean fmtGbp", what, l, &[])); return; }
        }
    }
    // structure: the same years, disposals, legs, holdings, in the same order
    let joined: String = runs.join("\u{1f}");
    let mut cursor = 0usize;
    let mut expect = |tok: String, ctx: &mut Ctx| -> bool {
        match joined[cursor..].find(&tok) { Some(i) => { cursor += i + tok.len(); true } None => { ctx.ev.violation("oracle", format!("the PDF lacks (in order) the text '{tok}' that the report calls for"), replay_text(prop, "oracle: PDF lists", &tok, l, &[format!("case {name}")])); false } }
    };
    let qty = |d: Decimal| -> String { let r = d.round_dp_with_strategy(6, rust_decimal::RoundingStrategy::MidpointAwayFromZero).normalize(); r.to_string() };
    for y in &rep.tax_years { if !expect(cgt_format::format_tax_year(y.period.start_year()), ctx) { return; } if !expect(y.disposals.len().to_string(), ctx) { return; } }
    for y in &rep.tax_years {
        if !expect(format!("Tax Year {}", cgt_format::format_tax_year(y.period.start_year())), ctx) { return; }
        for (i, d) in y.disposals.iter().enumerate() {
            if !expect(format!("{}. {}", i + 1, d.ticker), ctx) { return; }
            if !expect(format!("{} shares", qty(d.quantity)), ctx) { return; }
            if !expect(format!("Sold {}", cgt_format::format_date(d.date)), ctx) { return; }
            if !expect((if d.net_gain_or_loss() >= Decimal::ZERO { "GAIN" } else { "LOSS" }).to_string(), ctx) { return; }
            for m in &d.matches {
                let t = match m.rule { cgt_core::MatchRule::SameDay => format!("Same Day: {} shares", qty(m.quantity)), cgt_core::MatchRule::BedAndBreakfast => match m.acquisition_date { Some(a) => format!("B&B: {} shares from {}", qty(m.quantity), cgt_format::format_date(a)), None => format!("B&B: {} shares", qty(m.quantity)) }, cgt_core::MatchRule::Section104 => format!("Section 104: {} shares @", qty(m.quantity)) };
                if !expect(t, ctx) { return; }
            }
        }
    }
    let mut hs: Vec<&cgt_core::Section104Holding> = rep.holdings.iter().filter(|h| h.quantity > Decimal::ZERO).collect();
    hs.sort_by(|a, b| a.ticker.cmp(&b.ticker));
    if !expect("Holdings".into(), ctx) { return; }
    for h in hs { if !expect(h.ticker.clone(), ctx) { return; } if !expect(qty(h.quantity), ctx) { return; } }
}

fn gen_value(r: &mut Rng) -> Decimal {
    let sign = if r.chance(1, 3) { -1 } else { 1 };
    let v = match r.below(8) {
        0 => Decimal::new(r.range(0, 2_000_000) * 10 + 5, 3),            // exactly on a half-penny
        1 => Decimal::new(r.range(0, 2_000_000) * 100 + *r.pick(&[49i64, 50, 51]), 4), // around it
        2 => Decimal::ZERO,
        3 => Decimal::new(r.range(100_000_000, 99_999_999_999), 2),      // ≥ £1,000,000
        4 => Decimal::new(r.range(1, 999), 5),                           // rounds to 0.00 or 0.01
        5 => Decimal::new(r.range(0, 10_000_000_000), 10),
        6 => Decimal::from(r.range(0, 5_000_000)),
        _ => Decimal::new(r.range(0, 100_000_000), 2),
    };
    v * Decimal::from(sign)
}

fn check_value(ctx: &mut Ctx, v: Decimal) {
    ctx.ev.evaluations += 1;
    let q = Q::from_dec(v);
    let want = half_away_pence(&q);
    let on_mid = Q::from_dec(v * Decimal::from(1000)).d == 1.into() && (v * Decimal::from(1000) % Decimal::from(10)).abs() == Decimal::from(5);
    if on_mid { ctx.ev.count("midpoints"); ctx.ev.nontrivial.insert(v.to_string()); }
    // text
    let text = cgt_format::format_gbp(v);
    match parse_gbp(&text) {
        None => ctx.ev.violation("oracle", format!("format_gbp({v}) = '{text}' is not of the form [-]£d,ddd.dd"), format!("# property C17\nvalue {v}\n")),
        Some(shown) => if !shown.eq(&want) { ctx.ev.violation("oracle", format!("text shows {text} for {v}; pence rounding with midpoints away from zero gives {}", want.approx()), format!("# property C17\n# oracle: text figure\nvalue {v}\n")); },
    }
    if text.starts_with('-') != (v.is_sign_negative() && !(v.is_zero() && !text.starts_with('-'))) && !v.is_zero() && (want.is_zero() == false) && text.starts_with('-') != v.is_sign_negative() {
        ctx.ev.violation("oracle", format!("sign of '{text}' for {v}"), format!("# property C17\nvalue {v}\n"));
    }
    // JSON (the serialiser every JSON front-end uses: CLI --format json and the MCP tools)
    let h = cgt_core::Section104Holding { ticker: "T".into(), quantity: Decimal::ONE, total_cost: v };
    let js = serde_json::to_value(&h).ok().and_then(|j| j["total_cost"].as_str().map(|s| s.to_string())).unwrap_or_default();
    let shown = Q::parse(&{ let (i, f) = js.split_once('.').unwrap_or((&js, "")); format!("{}{}/1{}", i, f, "0".repeat(f.len())) });
    let full_or_rounded = shown.as_ref().map(|s| s.eq(&q) || s.eq(&want)).unwrap_or(false);
    if !full_or_rounded {
        ctx.ev.violation("oracle", format!("JSON shows \"{js}\" for {v}; neither the full value nor pence with midpoints away from zero ({})", want.approx()), format!("# property C17\n# oracle: JSON figure (text shows {text})\nvalue {v}\n"));
    }
    if let Some(m) = ctx.model.as_mut() {
        ctx.ev.traces_validated += 1;
        let a = m.ask(&format!("fmtgbp {}", q.wire()));
        let mt = a.strip_prefix("ok ").map(unhex6).unwrap_or(a.clone());
        if mt != text { ctx.ev.violation("correspondence", format!("format_gbp({v}): impl '{text}' vs model '{mt}'"), format!("# property C17\n# correspondence: fmtgbp\nvalue {v}\n")); }
        let b = m.ask(&format!("jsonmoney {}", v));
        let mj = b.strip_prefix("ok ").map(unhex6).unwrap_or(b.clone());
        if mj != js { ctx.ev.violation("correspondence", format!("JSON money for {v}: impl \"{js}\" vs model \"{mj}\""), format!("# property C17\n# correspondence: jsonmoney\nvalue {v}\n")); }
    }
}

pub fn run(ctx: &mut Ctx) {
    let prop = "C17";
    ctx.ev.rule = "part 1: generated values (exact half-penny midpoints, ±1 in the 4th decimal around them, zero, negative, ≥ £1,000,000, tiny, 10-decimal): format_gbp's string must have the shape [-]£d,ddd.dd and read back as the value rounded to pence with midpoints away from zero; the JSON money string (the serde serialiser used by --format json and the MCP tools) must read back as the full value or that same rounding; both compared with the Lean formatter. Amounts in other currencies (USD, EUR, JPY, KWD, CHF, BHD, KRW, CLF: ISO exponents 0, 2, 3, 4; half-unit midpoints, ±1 around them, negatives): format_currency_amount reads back as the amount rounded to the currency's minor units with midpoints away from zero, compared with the Lean fmtCurrencyAmount; and the real text report's ASSET EVENTS lines for USD/JPY/KWD midpoint amounts. Quantities: format_decimal_trimmed reads back exactly; dates DD/MM/YYYY; tax years YYYY/YY in text, Display and JSON for every year 1900–2100. MCP: explain_matching's figures over the real server for ledgers with three- and four-decimal prices and fees: the library's value in full or rounded half away. part 2: generated ledgers: every figure of the plain-text summary rows equals format_gbp of the report's value; the JSON report's strings equal the same rounding and every quantity in it (disposals, legs, holdings) is exact; both list the same years, disposals and legs; PDF: the text runs of the compiled Typst document (hook verif_text_runs): every £ figure, in template order (summary, disposal headers, Section 104 unit costs, unit prices, gross/fees/net, cost, result, holdings' average costs, echoed prices, fees and event values), equals the exact value rounded to pence with midpoints away from zero and equals the Lean fmtGbp; years, disposal headers, quantities to six decimals, dates and legs appear in report order. Non-trivial = values exactly on a half-penny, and reports with ≥ 2 years; distinct by value/ledger.".into();

    // the MCP explain_matching tool shows each leg's cost and gain, the disposal's proceeds and its total result:
    // each must be the library's value in full or rounded to pence with midpoints away from zero (figures with
    // a third decimal of 5–9 tell rounding from truncation)
    if crate::cli::available() {
        use super::c20::{call, session, result_text};
        let mut rr = crate::rng::Rng::new(ctx.seed ^ 0xC17E);
        for i in 0..ctx.n(6, 120) {
            let (q1, q2) = (Decimal::from(rr.range(3, 40)), Decimal::from(rr.range(3, 40)));
            let p1 = Decimal::new(rr.range(10_000, 99_999), 4);
            let f1 = Decimal::new(rr.range(1, 999), 3);
            let sell = Decimal::from(rr.range(1, 3)).min(q1);
            let ps = Decimal::new(rr.range(10_005, 99_995), 3);
            let p2 = Decimal::new(rr.range(10_000, 99_999), 4);
            // every third ledger is sold in March and bought back in April, within thirty days but in the next
            // tax year; every third (offset 1) is bought back on the day of the sale and again a week later
            let (text, ddate) = match i % 3 {
                1 => (format!("2023-01-10 BUY ACME {q1} @ {p1} FEES {f1}\n2023-03-{} SELL ACME {sell} @ {ps} FEES 0.125\n2023-04-{:02} BUY ACME {q2} @ {p2} FEES 0.005\n", 10 + i % 20, 6 + i % 3), format!("2023-03-{}", 10 + i % 20)),
                2 => (format!("2023-01-10 BUY ACME {q1} @ {p1} FEES {f1}\n2023-06-01 SELL ACME {} @ {ps} FEES 0.125\n2023-06-01 BUY ACME 1 @ {p2} FEES 0.005\n2023-06-08 BUY ACME 1 @ {p2} FEES 0.015\n", sell + Decimal::TWO), "2023-06-01".to_string()),
                _ => (format!("2023-01-10 BUY ACME {q1} @ {p1} FEES {f1}\n2023-02-10 BUY ACME {q2} @ {p2} FEES 0.005\n2023-06-01 SELL ACME {sell} @ {ps} FEES 0.125\n"), "2023-06-01".to_string()),
            };
            let Ok(txs) = cgt_core::parser::parse_file(&text) else { continue };
            let cfg = run_impl::config_from(&run_impl::embedded_exemptions());
            let Ok(rep) = cgt_core::calculator::calculate(&txs, None, None, &cfg) else { continue };
            let Some(d) = rep.tax_years.iter().flat_map(|y| y.disposals.iter()).next() else { continue };
            ctx.ev.evaluations += 1;
            ctx.ev.count("mcp-explanations");
            let s = session(&[call(1, "explain_matching", json!({"transactions": text, "ticker": "ACME", "disposal_date": ddate}))], false);
            let Some(ans) = s.responses.iter().find(|v| v["id"].as_u64() == Some(1)).and_then(result_text) else { ctx.ev.violation("oracle", "explain_matching gave no result for a listed disposal".into(), format!("# property C17\n{text}")); continue };
            let e: serde_json::Value = serde_json::from_str(&ans).unwrap_or_default();
            let shown_ok = |v: &serde_json::Value, w: Decimal| v.as_str().and_then(|x| x.parse::<Decimal>().ok()).map(|x| { let (xq, wq) = (Q::from_dec(x), Q::from_dec(w)); xq.eq(&wq) || xq.eq(&half_away_pence(&wq)) }).unwrap_or(false);
            let mut bad: Option<String> = None;
            if !shown_ok(&e["proceeds"], d.proceeds) { bad = Some(format!("proceeds {} shown as {}", d.proceeds, e["proceeds"])); }
            let total: Decimal = d.matches.iter().map(|m| m.gain_or_loss).sum();
            if !shown_ok(&e["total_gain_or_loss"], total) { bad = Some(format!("total result {} shown as {}", total, e["total_gain_or_loss"])); }
            if e["matches"].as_array().map(|a| a.len()) != Some(d.matches.len()) { bad = Some(format!("{} legs in the report, {} in the explanation", d.matches.len(), e["matches"].as_array().map(|a| a.len()).unwrap_or(0))); }
            for (k, m) in d.matches.iter().enumerate() {
                if !shown_ok(&e["matches"][k]["allowable_cost"], m.allowable_cost) { bad = Some(format!("leg {k} allowable cost {} shown as {}", m.allowable_cost, e["matches"][k]["allowable_cost"])); }
                if !shown_ok(&e["matches"][k]["gain_or_loss"], m.gain_or_loss) { bad = Some(format!("leg {k} gain {} shown as {}", m.gain_or_loss, e["matches"][k]["gain_or_loss"])); }
            }
            if let Some(what) = bad { ctx.ev.violation("oracle", format!("MCP explain_matching: {what}"), format!("# property C17\n# oracle: explain_matching for ACME {ddate} over `cgt-tool mcp`: {what}\n{text}")); }
        }
    }

    // the tax-year label of every front-end, for every year: JSON (serde) and text agree on YYYY/YY with a
    // two-digit second part (2008/09, 1999/00, 2099/00)
    for y in 1900u16..=2100 {
        ctx.ev.evaluations += 1;
        let Ok(p) = cgt_core::TaxPeriod::new(y) else { continue };
        let js = serde_json::to_value(p).ok().and_then(|v| v.as_str().map(|x| x.to_string())).unwrap_or_default();
        let want = format!("{y}/{:02}", (y as u32 + 1) % 100);
        let text = cgt_format::format_tax_year(y);
        if js != want || text != want || format!("{p}") != want {
            ctx.ev.violation("oracle", format!("tax year {y}: JSON shows \"{js}\", text shows \"{text}\", Display shows \"{p}\"; all must read {want}"), format!("# property C17\n# tax-year label\nyear {y}\n"));
            break;
        }
    }
    let mut r = Rng::new(ctx.seed ^ 0xC17);
    let n = ctx.n(1500, 80_000);
    for _ in 0..n { let v = gen_value(&mut r); check_value(ctx, v); }
    // amounts in other currencies (transaction echoes), every ISO exponent 0, 2, 3, 4
    for _ in 0..ctx.n(400, 20_000) {
        let code = *r.pick(CODES);
        let k = cgt_money::Currency::from_code(code).map(|c| cgt_money::CurrencyAmount::new(Decimal::ZERO, c).minor_units() as u32).unwrap_or(2);
        let v = gen_foreign(&mut r, k);
        check_foreign(ctx, code, v);
    }
    for (code, v) in [("USD", "12.345"), ("USD", "20.125"), ("JPY", "100.5"), ("KWD", "0.0005"), ("USD", "-0.125")] { check_foreign(ctx, code, v.parse().expect("literal")); }
    // the same through the real text report: asset events in other currencies on half-unit midpoints
    {
        use cgt_money::{Currency, CurrencyAmount};
        let mk = |v: &str, c: &str| CurrencyAmount::new(v.parse().expect("literal"), Currency::from_code(c).expect("code"));
        let d = |y, m, dd| chrono::NaiveDate::from_ymd_opt(y, m, dd).expect("date");
        let txs = vec![
            cgt_core::Transaction { date: d(2023, 1, 10), ticker: "ACME".into(), operation: cgt_core::Operation::Buy { amount: Decimal::from(1000), price: mk("10", "USD"), fees: mk("0", "USD") } },
            cgt_core::Transaction { date: d(2023, 6, 15), ticker: "ACME".into(), operation: cgt_core::Operation::Dividend { total_value: mk("12.345", "USD"), tax_paid: mk("0", "USD") } },
            cgt_core::Transaction { date: d(2023, 7, 15), ticker: "ACME".into(), operation: cgt_core::Operation::CapReturn { amount: Decimal::from(1000), total_value: mk("20.125", "USD"), fees: mk("0", "USD") } },
            cgt_core::Transaction { date: d(2023, 8, 15), ticker: "ACME".into(), operation: cgt_core::Operation::Dividend { total_value: mk("100.5", "JPY"), tax_paid: mk("0", "JPY") } },
            cgt_core::Transaction { date: d(2023, 9, 15), ticker: "ACME".into(), operation: cgt_core::Operation::Accumulation { amount: Decimal::from(1000), total_value: mk("7.0005", "KWD"), tax_paid: mk("0", "KWD") } },
        ];
        let rep = cgt_core::TaxReport { tax_years: vec![], holdings: vec![], transactions: txs };
        let text = cgt_formatter_plain::PlainFormatter.format(&rep).unwrap_or_default();
        ctx.ev.evaluations += 1;
        for want in ["15/06/2023 DIVIDEND ACME 12.35 USD", "15/07/2023 CAPRETURN ACME 1000 20.13 USD", "15/08/2023 DIVIDEND ACME 101 JPY", "15/09/2023 ACCUMULATION ACME 1000 7.001 KWD"] {
            if !text.lines().any(|l| l == want) { ctx.ev.violation("oracle", format!("the text report's ASSET EVENTS section lacks the line '{want}' (amount rounded to the currency's minor units, midpoints away from zero)"), format!("# property C17\n# oracle: text report of these transactions\n2023-01-10 BUY ACME 1000 @ 10 USD FEES 0 USD\n2023-06-15 DIVIDEND ACME TOTAL 12.345 USD TAX 0 USD\n2023-07-15 CAPRETURN ACME 1000 TOTAL 20.125 USD FEES 0 USD\n2023-08-15 DIVIDEND ACME TOTAL 100.5 JPY TAX 0 JPY\n2023-09-15 ACCUMULATION ACME 1000 TOTAL 7.0005 KWD TAX 0 KWD\n# got:\n{}\n", text.lines().skip_while(|l| !l.contains("ASSET EVENTS")).map(|l| format!("# {l}")).collect::<Vec<_>>().join("\n"))); }
        }
    }
    // the D8 witness every run
    check_value(ctx, Decimal::new(125, 3));
    // quantities, dates, tax years
    for _ in 0..ctx.n(300, 5000) {
        ctx.ev.evaluations += 1;
        let q = crate::dslgen::gen_decimal(&mut r, true);
        let s = cgt_format::format_decimal_trimmed(q);
        if s.parse::<Decimal>().ok() != Some(q) && s.parse::<Decimal>().ok().map(|x| x == q) != Some(true) { ctx.ev.violation("oracle", format!("quantity {q} is shown as {s}"), format!("# property C17\nquantity {q}\n")); }
        let d = crate::dslgen::gen_date(&mut r);
        let ds = cgt_format::format_date(d);
        if ds != format!("{:02}/{:02}/{:04}", chrono::Datelike::day(&d), chrono::Datelike::month(&d), chrono::Datelike::year(&d)) { ctx.ev.violation("oracle", format!("date {d} shown as {ds}"), format!("# property C17\ndate {d}\n")); }
        let y = 1900 + r.below(201) as u16;
        let ys = cgt_format::format_tax_year(y);
        if ys != format!("{}/{:02}", y, (y + 1) % 100) { ctx.ev.violation("oracle", format!("tax year {y} shown as {ys}"), format!("# property C17\nyear {y}\n")); }
        if let Some(m) = ctx.model.as_mut() { let a = m.ask(&format!("taxyearfmt {y}")); if a.strip_prefix("ok ").map(unhex6) != Some(ys.clone()) { ctx.ev.violation("correspondence", format!("tax year format {y}"), format!("# property C17\nyear {y}\n")); } }
    }
    // the D8b witness every run: a gain of exactly 1.005 must read £1.01 in the PDF too
    if let Ok(w) = ledger::from_dsl("2023-01-10 BUY ACME 1 @ 1 FEES 0\n2023-12-01 SELL ACME 1 @ 2.005 FEES 0\n") {
        if let Ok(Ok(rep)) = run_impl::impl_calc_raw(&w, None, &run_impl::wide_exemptions()) { ctx.ev.evaluations += 1; check_pdf(ctx, "D8b witness", &w, &rep); }
    }
    // part 2: whole reports
    let cfg = GenCfg::standard();
    let ex = run_impl::wide_exemptions();
    let cases = matcher_cases(prop, ctx, &cfg, ctx.n(150, 5000));
    for (name, l) in cases {
        let Ok(Ok(rep)) = run_impl::impl_calc_raw(&l, None, &ex) else { continue };
        ctx.ev.evaluations += 1;
        if rep.tax_years.len() >= 2 { ctx.ev.nontrivial.insert(ledger::dsl(&l)); }
        let text = cgt_formatter_plain::PlainFormatter.format(&rep).unwrap_or_default();
        let js = serde_json::to_value(&rep).unwrap_or_default();
        check_pdf(ctx, &name, &l, &rep);
        // summary rows
        for (yi, y) in rep.tax_years.iter().enumerate() {
            let label = cgt_format::format_tax_year(y.period.start_year());
            let row = text.lines().find(|ln| ln.starts_with(&label) && ln.contains('£'));
            let want = [y.net_gain, y.total_gain, y.total_loss, y.gross_proceeds(), y.exempt_amount, y.taxable_gain(y.exempt_amount)];
            match row {
                None => ctx.ev.violation("oracle", format!("tax year {label} has no summary row in the text report"), replay_text(prop, "oracle", "missing year", &l, &[format!("case {name}")])),
                Some(rw) => {
                    // columns are fixed-width: figures of £1,000,000 and more can touch the next column,
                    // so figures are located by their '£', not by blanks
                    let figs_owned: Vec<String> = { let cs: Vec<char> = rw.chars().collect(); let mut out = Vec::new(); let mut i = 0; while i < cs.len() { if cs[i] == '£' { let mut st = i; if i > 0 && cs[i - 1] == '-' { st = i - 1; } let mut j = i + 1; while j < cs.len() && (cs[j].is_ascii_digit() || cs[j] == ',') { j += 1; } if j < cs.len() && cs[j] == '.' { j += 3.min(cs.len() - j); } out.push(cs[st..j].iter().collect::<String>()); i = j; } else { i += 1; } } out };
                    let figs: Vec<&str> = figs_owned.iter().map(|x| x.as_str()).collect();
                    let ok = figs.len() == 6 && figs.iter().zip(&want).all(|(f, w)| parse_gbp(f).map(|s| s.eq(&half_away_pence(&Q::from_dec(*w)))).unwrap_or(false));
                    if !ok { ctx.ev.violation("oracle", format!("text summary row of {label} shows {:?} for values {:?}", figs, want), replay_text(prop, "oracle", "summary row", &l, &[format!("case {name}")])); }
                }
            }
            let jy = &js["tax_years"][yi];
            for (k, w) in [("net_gain", y.net_gain), ("total_gain", y.total_gain), ("total_loss", y.total_loss), ("exempt_amount", y.exempt_amount)] {
                let s = jy[k].as_str().unwrap_or("");
                let shown = Q::parse(&{ let (i, f) = s.split_once('.').unwrap_or((s, "")); format!("{}{}/1{}", i, f, "0".repeat(f.len())) });
                let wq = Q::from_dec(w);
                if !shown.as_ref().map(|x| x.eq(&wq) || x.eq(&half_away_pence(&wq))).unwrap_or(false) {
                    ctx.ev.violation("oracle", format!("JSON {k} of {label} is \"{s}\" for {w}"), replay_text(prop, "oracle", "JSON figure", &l, &[format!("case {name}")]));
                }
            }
            // same lists
            let jd = jy["disposals"].as_array().map(|a| a.len()).unwrap_or(0);
            if jd != y.disposals.len() || jy["disposal_count"].as_u64() != Some(y.disposals.len() as u64) { ctx.ev.violation("oracle", format!("JSON lists {jd} disposals for {label}, the report has {}", y.disposals.len()), replay_text(prop, "oracle", "lists", &l, &[])); }
        }
        // every quantity of the JSON report is exact, every other figure exact or rounded to pence
        {
            let dq = |v: &serde_json::Value| v.as_str().and_then(|x| x.parse::<Decimal>().ok());
            let money_ok = |v: &serde_json::Value, w: Decimal| dq(v).map(|x| { let (xq, wq) = (Q::from_dec(x), Q::from_dec(w)); xq.eq(&wq) || xq.eq(&half_away_pence(&wq)) }).unwrap_or(false);
            let mut bad: Option<String> = None;
            for (yi, y) in rep.tax_years.iter().enumerate() {
                for (di, d) in y.disposals.iter().enumerate() {
                    let jd = &js["tax_years"][yi]["disposals"][di];
                    let c = format!("{} {}", d.date, d.ticker);
                    if dq(&jd["quantity"]) != Some(d.quantity) { bad = Some(format!("{c}: quantity {} shown as {}", d.quantity, jd["quantity"])); }
                    if !money_ok(&jd["gross_proceeds"], d.gross_proceeds) { bad = Some(format!("{c}: gross proceeds {} shown as {}", d.gross_proceeds, jd["gross_proceeds"])); }
                    if !money_ok(&jd["proceeds"], d.proceeds) { bad = Some(format!("{c}: proceeds {} shown as {}", d.proceeds, jd["proceeds"])); }
                    for (mi, m) in d.matches.iter().enumerate() {
                        let jm = &jd["matches"][mi];
                        if dq(&jm["quantity"]) != Some(m.quantity) { bad = Some(format!("{c} leg {mi}: quantity {} shown as {}", m.quantity, jm["quantity"])); }
                        if !money_ok(&jm["allowable_cost"], m.allowable_cost) { bad = Some(format!("{c} leg {mi}: allowable cost {} shown as {}", m.allowable_cost, jm["allowable_cost"])); }
                        if !money_ok(&jm["gain_or_loss"], m.gain_or_loss) { bad = Some(format!("{c} leg {mi}: gain {} shown as {}", m.gain_or_loss, jm["gain_or_loss"])); }
                    }
                }
            }
            for (hi, h) in rep.holdings.iter().enumerate() {
                let jh = &js["holdings"][hi];
                if dq(&jh["quantity"]) != Some(h.quantity) { bad = Some(format!("holding {}: quantity {} shown as {}", h.ticker, h.quantity, jh["quantity"])); }
                if !money_ok(&jh["total_cost"], h.total_cost) { bad = Some(format!("holding {}: cost {} shown as {}", h.ticker, h.total_cost, jh["total_cost"])); }
            }
            if js["holdings"].as_array().map(|a| a.len()) != Some(rep.holdings.len()) { bad = Some("JSON lists a different number of holdings".into()); }
            if let Some(what) = bad { ctx.ev.violation("oracle", format!("JSON report: {what}"), replay_text(prop, "oracle: cgt-tool report in.cgt --format json", &what, &l, &[format!("case {name}")])); }
        }
        let sections = text.lines().filter(|ln| ln.starts_with("## ")).count();
        if sections != rep.tax_years.len() { ctx.ev.violation("oracle", format!("text report has {sections} year sections, JSON/report has {}", rep.tax_years.len()), replay_text(prop, "oracle", "lists", &l, &[])); }
        let legs_text = text.lines().filter(|ln| { let t = ln.trim_start(); ln.starts_with("   ") && (t.starts_with("Same Day:") || t.starts_with("B&B:") || t.starts_with("Section 104:")) }).count();
        let legs_rep: usize = rep.tax_years.iter().map(|y| y.disposals.iter().map(|d| d.matches.len()).sum::<usize>()).sum();
        if legs_text != legs_rep { ctx.ev.violation("oracle", format!("text report shows {legs_text} legs, the report has {legs_rep}"), replay_text(prop, "oracle", "lists", &l, &[])); }
        if ctx.ev.samples.len() < 2 { ctx.ev.sample(json!({"case": name, "summary_row": text.lines().find(|ln| ln.contains('£')).unwrap_or("") })); }
    }
}
