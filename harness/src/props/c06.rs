//! C06 — the report does not depend on line order, file split or fill splitting.
//! oracle (on the implementation alone): permuted / re-partitioned / fill-split variants of a ledger
//! must give the same report. correspondence: whole report vs the model for the base ledger.
use super::*;
use crate::rep::{self, Out, Proj, RRep};
use crate::rng::Rng;
use crate::run_impl;
use rust_decimal::Decimal;
use serde_json::json;

/// split one BUY/SELL into 2–3 same-day fills with the same Σq, Σq·p and Σfees.
/// SELL fills are kept adjacent (non-adjacent SELL lines are known finding D17).
pub fn split_fills(l: &Ledger, r: &mut Rng) -> Option<Ledger> {
    let idxs: Vec<usize> = l.iter().enumerate().filter(|(_, t)| matches!(t.kind, Kind::Buy | Kind::Sell) && t.a.scale() <= 2).map(|(i, _)| i).collect();
    if idxs.is_empty() { return None; }
    let i = *r.pick(&idxs);
    let t = &l[i];
    let parts = 2 + r.below(2) as usize;
    // quantities: t.a = q1 + … ; same price on every fill keeps Σq·p; fees split exactly
    let mut qs = Vec::new();
    let mut left = t.a;
    for k in 0..parts - 1 {
        let q = (t.a / Decimal::from((parts + k) as i64)).round_dp(2);
        if q <= Decimal::ZERO || q >= left { return None; }
        qs.push(q);
        left -= q;
    }
    qs.push(left);
    let mut fs = Vec::new();
    let mut fleft = t.c;
    for _ in 0..parts - 1 {
        let f = (t.c / Decimal::from(parts as i64)).round_dp(2);
        fs.push(f);
        fleft -= f;
    }
    fs.push(fleft);
    if fs.iter().any(|f| *f < Decimal::ZERO) { return None; }
    let mut out = l.clone();
    out.remove(i);
    let fills: Vec<GTx> = qs.iter().zip(&fs).map(|(q, f)| GTx::new(t.date, &t.ticker, t.kind, *q, t.b, *f)).collect();
    if t.kind == Kind::Sell || r.chance(1, 2) {
        for (k, f) in fills.into_iter().enumerate() { out.insert(i + k, f); }
    } else {
        // BUY fills scattered among the other lines (the matcher sorts by date; same-day lines of
        // other securities may sit between them)
        for f in fills { let at = r.below(out.len() as u64 + 1) as usize; out.insert(at, f); }
    }
    Some(out)
}

/// permutation that keeps the relative order of same-day SELL lines of one security
/// (their order and adjacency is known finding D17) — used for the exact comparison
pub fn permute_keep_sells(l: &Ledger, r: &mut Rng) -> Ledger {
    let mut out = l.clone();
    r.shuffle(&mut out);
    // restore original relative order of the SELLs of each (date, ticker)
    let mut keys: Vec<(chrono::NaiveDate, String)> = l.iter().filter(|t| t.kind == Kind::Sell).map(|t| (t.date, t.ticker.clone())).collect();
    keys.sort();
    keys.dedup();
    for k in keys {
        let orig: Vec<GTx> = l.iter().filter(|t| t.kind == Kind::Sell && t.date == k.0 && t.ticker == k.1).cloned().collect();
        if orig.len() < 2 { continue; }
        let pos: Vec<usize> = out.iter().enumerate().filter(|(_, t)| t.kind == Kind::Sell && t.date == k.0 && t.ticker == k.1).map(|(i, _)| i).collect();
        for (p, o) in pos.iter().zip(orig) { out[*p] = o; }
    }
    out
}

fn same(a: &Out<RRep>, b: &Out<RRep>, legs_exact: bool) -> Option<String> {
    let mut p = Proj::full();
    p.legs_exact = legs_exact;
    // a refused ledger has no report; with two uncovered securities on one day, which of them the
    // error names follows the line order — the property speaks of accepted ledgers, so only the
    // refusal itself (its kind) is compared
    p.err_detail = false;
    // two runs of the same code: any difference at all is a finding, but compare through the same
    // projection machinery (tolerance only absorbs the decimal residue of differently ordered sums)
    rep::diff_report(a, b, &p).map(|s| s.replace("impl ", "variant ").replace("model ", "base "))
}

pub fn run(ctx: &mut Ctx) {
    let prop = "C06";
    let cfg = GenCfg::standard();
    let n = ctx.n(400, 25_000);
    let cases = matcher_cases(prop, ctx, &cfg, n);
    ctx.ev.rule = "each corpus/fixture/generated ledger × {3 random permutations of its lines, 1 random fill-splitting of a BUY/SELL (same Σq, Σq·p, Σfees; BUY fills scattered among other lines)}: the implementation's reports must agree with the base ledger's (legs exactly when no (date, security) has ≥ 2 SELL lines, otherwise per (rule, acquisition date)); base report also compared with the Lean model. Known-finding class multiSellDay (D17) is probed with its witness in two line orders. File partitions: through the real CLI, the lines spread over 2–3 files (LF or CRLF, with or without a final newline, possibly ending in a comment; half the time with one trade recorded as two identical adjacent fills) against the single file. Non-trivial = accepted ledger with ≥ 2 lines sharing a date; distinct by ledger text.".into();
    let ex = run_impl::wide_exemptions();
    let mut r = Rng::new(ctx.seed ^ 0xC06);
    let mut cli_budget: i64 = if ctx.tier == Tier::Quick { 10 } else { 120 };
    // known finding D17 (class multiSellDay): its witness in two line orders, legs compared exactly
    {
        use rust_decimal::Decimal;
        let day = ledger::d(2024, 5, 1);
        let a: Ledger = vec![
            GTx::new(ledger::d(2024, 1, 2), "AAA", Kind::Buy, Decimal::from(1000), Decimal::from(2), Decimal::ZERO),
            GTx::new(day, "AAA", Kind::Buy, Decimal::from(500), Decimal::from(3), Decimal::ZERO),
            GTx::new(day, "AAA", Kind::Sell, Decimal::from(300), Decimal::from(4), Decimal::ZERO),
            GTx::new(day, "AAA", Kind::Buy, Decimal::from(200), Decimal::from(3), Decimal::ZERO),
            GTx::new(day, "AAA", Kind::Sell, Decimal::from(250), Decimal::from(5), Decimal::ZERO),
        ];
        let b: Ledger = vec![a[0].clone(), a[1].clone(), a[3].clone(), a[2].clone(), a[4].clone()];
        ctx.ev.evaluations += 1;
        let (ra, rb) = (run_impl::impl_calc(&a, None, &ex), run_impl::impl_calc(&b, None, &ex));
        if let Some(what) = same(&ra, &rb, false) {
            ctx.ev.violation("oracle", format!("permuting the lines changes the report beyond the known leg partition: {what}"), replay_text(prop, "oracle", &what, &a, &[]));
        } else if same(&ra, &rb, true).is_some() {
            ctx.ev.known("multiSellDay", "D17: the partition of a day's disposal into legs follows which lines sit between that day's SELL lines");
        } else { ctx.ev.count("multi-sell-day-witness:same-legs"); }
    }
    for (name, l) in cases {
        ctx.ev.evaluations += 1;
        let base = run_impl::impl_calc(&l, None, &ex);
        let msd = multi_sell_day(&l);
        if msd { ctx.ev.count("multiSellDay"); }
        match &base { Ok(_) => ctx.ev.count("accepted"), Err(e) => { ctx.ev.count(&format!("rejected:{}", e.kind)); if e.kind == "panic" { ctx.ev.violation("crash", e.detail.clone(), replay_text(prop, "crash", &e.detail, &l, &[])); } } }
        let shared_dates = { let mut ds: Vec<_> = l.iter().map(|t| t.date).collect(); ds.sort(); ds.windows(2).any(|w| w[0] == w[1]) };
        if base.is_ok() && shared_dates { ctx.ev.nontrivial.insert(ledger::dsl(&l)); }
        // permutations
        for k in 0..3 {
            let v = if msd { permute_keep_sells(&l, &mut r) } else { let mut v = l.clone(); r.shuffle(&mut v); v };
            ctx.ev.count("permutations");
            let out = run_impl::impl_calc(&v, None, &ex);
            // with ≥ 2 SELL lines on a day, adjacency (lines of other securities between them) still
            // decides how legs are partitioned: compare per (rule, acquisition date)
            if let Some(what) = same(&out, &base, !msd) {
                // a sequential-vs-merged acceptance difference on multi-SELL days is D2's class, not C06's
                let mut f = |c: &Ledger| { let b = run_impl::impl_calc(c, None, &ex); let mut rr = Rng::new(7 + k); let mut vv = c.clone(); rr.shuffle(&mut vv); !multi_sell_day(c) && same(&run_impl::impl_calc(&vv, None, &ex), &b, true).is_some() };
                let small = if !msd { ledger::shrink(&l, &mut f) } else { l.clone() };
                ctx.ev.violation("oracle", format!("permuting the lines changes the report: {what}"), replay_text(prop, "oracle: base ledger below; variant = same lines in the order given after '# variant'", &what, &small, &[format!("case {name}"), "variant:".into()].into_iter().chain(v.iter().map(|t| t.dsl())).collect::<Vec<_>>()));
                break;
            }
        }
        // fill splitting
        if let Some(v) = split_fills(&l, &mut r) {
            ctx.ev.count("fill-splittings");
            let out = run_impl::impl_calc(&v, None, &ex);
            if let Some(what) = same(&out, &base, !msd) {
                ctx.ev.violation("oracle", format!("recording a trade as same-day fills changes the report: {what}"), replay_text(prop, "oracle: base ledger below; variant after '# variant'", &what, &l, &["variant:".to_string()].into_iter().chain(v.iter().map(|t| t.dsl())).collect::<Vec<_>>()));
            }
        }
        // file partitions through the real CLI: the same lines spread over 2–3 files (with or without a
        // final newline, a file may end in a comment line) must give the report of the single file
        if crate::cli::available() && cli_budget > 0 && base.is_ok() && l.len() >= 3 {
            cli_budget -= 1;
            ctx.ev.count("cli-file-partitions");
            // half the time one trade is first recorded as two identical fills on adjacent lines (same
            // quantity, price and fees): two equal lines are two trades, however the lines are dealt
            let mut lcli = l.clone();
            if r.chance(1, 2) {
                let idx: Vec<usize> = lcli.iter().enumerate().filter(|(_, t)| matches!(t.kind, Kind::Buy | Kind::Sell)).map(|(i, _)| i).collect();
                if !idx.is_empty() {
                    let i = *r.pick(&idx);
                    let mut h = lcli[i].clone();
                    h.a = (h.a / Decimal::TWO).normalize();
                    h.c = (h.c / Decimal::TWO).normalize();
                    if h.a * Decimal::TWO == lcli[i].a && h.c * Decimal::TWO == lcli[i].c && h.a.scale() <= 8 {
                        lcli[i] = h.clone();
                        lcli.insert(i + 1, h);
                        ctx.ev.count("cli-file-partitions:identical-fills");
                    }
                }
            }
            let lines: Vec<String> = lcli.iter().map(|t| t.dsl()).collect();
            let sc = crate::cli::Scratch::new();
            sc.write("all.cgt", &(lines.join("\n") + "\n"));
            let k = 2 + r.below(2) as usize;
            let mut cuts: Vec<usize> = (0..k - 1).map(|_| 1 + r.below((lines.len() - 1) as u64) as usize).collect();
            cuts.sort(); cuts.dedup();
            let mut names: Vec<String> = Vec::new();
            let mut start = 0;
            let mut layout = Vec::new();
            for (fi, end) in cuts.iter().copied().chain(std::iter::once(lines.len())).enumerate() {
                let mut body = lines[start..end].join(if r.chance(1, 4) { "\r\n" } else { "\n" });
                let style = r.below(4);
                match style { 0 => body.push('\n'), 1 => {}, 2 => body.push_str("\n# end of this part"), _ => body.push_str("   # trailing note") }
                layout.push(format!("part{fi}: lines {start}..{end}, ending style {style}"));
                let name = format!("part{fi}.cgt");
                sc.write(&name, &body);
                names.push(name);
                start = end;
            }
            let one = crate::cli::run(&sc, &["report", "all.cgt", "--format", "json"]);
            let mut args: Vec<&str> = vec!["report"];
            for n in &names { args.push(n); }
            args.push("--format"); args.push("json");
            let many = crate::cli::run(&sc, &args);
            let strip = |o: &crate::cli::CliOut| -> Option<(serde_json::Value, serde_json::Value)> { let v: serde_json::Value = serde_json::from_slice(&o.stdout).ok()?; Some((v["tax_years"].clone(), v["holdings"].clone())) };
            let same = one.code == many.code && (one.code != Some(0) || strip(&one) == strip(&many));
            if !same {
                ctx.ev.violation("oracle", format!("spreading the lines over {} files changes the outcome: single file exit {:?}, several files exit {:?} ({})", names.len(), one.code, many.code, many.stderr.lines().next().unwrap_or("reports differ")), replay_text(prop, "oracle: cgt-tool report part0.cgt part1.cgt … vs cgt-tool report all.cgt; files as described (no final newline unless style 0)", "file partition", &lcli, &layout));
            }
        }
        // correspondence on the base ledger
        if let Some(m) = ctx.model.as_mut() {
            match run_impl::model_calc(m, &l, None, &ex) {
                Err(e) => ctx.ev.violation("correspondence", format!("driver: {e}"), replay_text(prop, "correspondence", &e, &l, &[])),
                Ok(mo) => {
                    ctx.ev.traces_validated += 1;
                    let mut p = Proj::full();
                    if msd { p.legs_exact = false; }
                    if let Some(what) = rep::diff_report(&base, &mo, &p) {
                        ctx.ev.violation("correspondence", what.clone(), replay_text(prop, "correspondence (implementation vs Lean model)", &what, &l, &[format!("case {name}")]));
                    }
                }
            }
        }
        if ctx.ev.samples.len() < 3 && base.is_ok() && l.len() >= 5 {
            ctx.ev.sample(json!({"case": name, "ledger": ledger::dsl(&l).lines().collect::<Vec<_>>()}));
        }
    }
}
