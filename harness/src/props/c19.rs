//! C19 — RSU vests use the nearest vest date within seven days back.
use super::*;
use crate::q::Q;
use crate::rng::Rng;
use cgt_converter::BrokerConverter;
use cgt_converter::schwab::{SchwabConverter, SchwabInput};
use chrono::{Datelike, Duration, NaiveDate};
use rust_decimal::Decimal;
use serde_json::json;

fn us(d: NaiveDate) -> String { format!("{:02}/{:02}/{}", d.month(), d.day(), d.year()) }
fn ord(d: NaiveDate) -> i64 { d.num_days_from_ce() as i64 }

struct GAward { date: NaiveDate, action: Option<&'static str>, symbol: String, details: Vec<(Option<NaiveDate>, Option<Option<Decimal>>, Option<Option<Decimal>>)> }

fn money(r: &mut Rng) -> Decimal { Decimal::new(r.range(1, 9_999_999), 4) }
fn money_text(x: Decimal, r: &mut Rng) -> String { match r.below(3) { 0 => format!("${x}"), 1 => format!("{x}"), _ => { let s = x.to_string(); let (i, f) = s.split_once('.').unwrap_or((&s, "0")); let mut out = String::new(); for (k, c) in i.chars().enumerate() { if k > 0 && (i.len() - k) % 3 == 0 { out.push(','); } out.push(c); } format!("${out}.{f}") } } }

fn recase(s: &str, r: &mut Rng) -> String { s.chars().map(|c| if r.chance(1, 2) { c.to_ascii_lowercase() } else { c.to_ascii_uppercase() }).collect() }

fn gen_awards(r: &mut Rng, deposit: NaiveDate, sym: &str) -> Vec<GAward> {
    let n = r.below(6) as usize;
    let mut out = Vec::new();
    for _ in 0..n {
        let gap = *r.pick(&[-3i64, -1, 0, 0, 1, 2, 3, 6, 7, 7, 8, 9, 20]);
        let date = deposit - Duration::days(gap);
        let symbol = if r.chance(1, 6) { "OTHER".to_string() } else { recase(sym, r) };
        let action: Option<&'static str> = *r.pick(&[None, Some("Deposit"), Some("Lapse"), Some("Sale"), Some("Wire Transfer"), Some("Tax Withholding"), Some("Mystery")]);
        let nd = match r.below(8) { 0 => 0, 1 | 2 => 2, 3 => 3, _ => 1 };
        let mut details = Vec::new();
        for _ in 0..nd {
            let vest = r.chance(1, 2);
            let vd = if vest && r.chance(1, 2) { Some(date - Duration::days(r.range(0, 4))) } else { None };
            let vf = if vest { Some(if r.chance(1, 8) { None } else { Some(money(r)) }) } else { None };
            let fp = if !vest || r.chance(1, 3) { Some(if r.chance(1, 8) { None } else { Some(money(r)) }) } else { None };
            details.push((vd, vf, fp));
        }
        // a vesting action with no details makes the whole file invalid: keep that rare
        let action = if nd == 0 && matches!(action, Some("Deposit") | Some("Lapse") | Some("Sale")) && !r.chance(1, 10) { Some("Wire Transfer") } else { action };
        out.push(GAward { date, action, symbol, details });
    }
    out
}

fn awards_json(aw: &[GAward], r: &mut Rng) -> String {
    let txs: Vec<serde_json::Value> = aw.iter().map(|a| {
        let ds: Vec<serde_json::Value> = a.details.iter().map(|(vd, vf, fp)| {
            let mut m = serde_json::Map::new();
            if let Some(d) = vd { m.insert("VestDate".into(), json!(us(*d))); }
            if let Some(v) = vf { m.insert("VestFairMarketValue".into(), json!(match v { Some(x) => money_text(*x, r), None => (*r.pick(&["", "--", "  "])).to_string() })); }
            if let Some(v) = fp { m.insert("FairMarketValuePrice".into(), json!(match v { Some(x) => money_text(*x, r), None => (*r.pick(&["", "--"])).to_string() })); }
            json!({"Details": m})
        }).collect();
        let mut m = serde_json::Map::new();
        m.insert("Date".into(), json!(us(a.date)));
        if let Some(act) = a.action { m.insert("Action".into(), json!(act)); }
        m.insert("Symbol".into(), json!(a.symbol));
        m.insert("TransactionDetails".into(), json!(ds));
        serde_json::Value::Object(m)
    }).collect();
    json!({"Transactions": txs}).to_string()
}

fn awards_wire(aw: &[GAward]) -> String {
    aw.iter().map(|a| {
        let act = match a.action { Some("Deposit") | Some("Lapse") | Some("Sale") | Some("Forced Quick Sell") => "V", Some("Wire Transfer") | Some("Tax Withholding") | Some("Tax Reversal") | Some("Forced Disbursement") => "N", _ => "U" };
        let o = |v: &Option<Option<Decimal>>| match v { None => "-".to_string(), Some(None) => "~".to_string(), Some(Some(x)) => Q::from_dec(*x).wire() };
        let ds: Vec<String> = a.details.iter().map(|(vd, vf, fp)| format!("{},{},{}", vd.map(|d| ord(d).to_string()).unwrap_or_else(|| "-".into()), o(vf), o(fp))).collect();
        format!("{}|{}|{}|{}", ord(a.date), act, a.symbol, ds.join(";"))
    }).collect::<Vec<_>>().join(" ")
}

/// independent reading of the property on the generated awards: the map the documented rules give,
/// then the closest date in [d−7, d]
fn expected(aw: &[GAward], deposit: NaiveDate, sym: &str) -> Result<Option<(NaiveDate, Decimal)>, ()> {
    let mut map: std::collections::BTreeMap<(String, NaiveDate), Decimal> = Default::default();
    for a in aw {
        if a.details.is_empty() {
            if matches!(a.action, Some("Deposit") | Some("Lapse") | Some("Sale") | Some("Forced Quick Sell")) { return Err(()); }
            continue;
        }
        let s = a.symbol.to_uppercase();
        let vests: Vec<(NaiveDate, Decimal)> = a.details.iter().filter_map(|(vd, vf, _)| match vf { Some(Some(x)) => Some((vd.unwrap_or(a.date), *x)), _ => None }).collect();
        if !vests.is_empty() {
            for (d, x) in vests { map.insert((s.clone(), d), x); }
        } else {
            // first detail that yields a value: a vest field (even blank) shadows the fallback price of the same detail
            let fb = a.details.iter().find_map(|(_, vf, fp)| match (vf, fp) { (Some(_), _) => None, (None, Some(Some(x))) => Some((a.date, *x)), _ => None });
            if let Some((d, x)) = fb { map.insert((s.clone(), d), x); }
        }
    }
    let s = sym.to_uppercase();
    for back in 0..=7 {
        let d = deposit - Duration::days(back);
        if let Some(x) = map.get(&(s.clone(), d)) { return Ok(Some((d, *x))); }
    }
    Ok(None)
}

pub fn run(ctx: &mut Ctx) {
    ctx.ev.rule = "(every third case also as an export with 2–3 deposits of the symbol 1–7 days apart, rows oldest-first, newest-first or shuffled: each deposit must get the entry its own look-back gives) generated awards files (0–5 entries around the deposit date at gaps −3…+20 days, mixed-case symbols, another symbol, vesting / non-vesting / unknown / absent actions, 0–3 details with vest-specific and fallback fields, blank and '--' values, $ and comma spellings) × a Stock Plan Activity row (every fourth one booked late, `posted as of deposit`; its own Price column empty, null, or — two times in five — filled with a figure that must be ignored) through the real converter: the emitted BUY's date and price must be those of the entry for that symbol on the deposit date or the closest earlier date ≤ 7 days back (vest value over fallback price, last duplicate wins), an error naming symbol and date otherwise, also without an awards file; compared with the Lean model of get_fmv/parse_awards_json. Month and year ends are hit by deposit dates on the 1st–8th of a month. Non-trivial = a look-back of ≥ 1 day or ≥ 2 candidate entries in the window; distinct by awards text + deposit date.".into();
    let mut r = Rng::new(ctx.seed ^ 0xC19);
    let n = ctx.n(1200, 60_000);
    for i in 0..n {
        ctx.ev.evaluations += 1;
        let deposit = match r.below(4) { 0 => NaiveDate::from_ymd_opt(2020 + r.below(6) as i32, 1 + r.below(12) as u32, 1 + r.below(8) as u32).expect("d"), 1 => NaiveDate::from_ymd_opt(2024, 1, 1 + r.below(7) as u32).expect("d"), 2 => NaiveDate::from_ymd_opt(2024, 3, 1 + r.below(7) as u32).expect("d"), _ => NaiveDate::from_ymd_opt(2019 + r.below(8) as i32, 1 + r.below(12) as u32, 1 + r.below(28) as u32).expect("d") };
        let sym = *r.pick(&["ACME", "Xyzz", "goog"]);
        let aw = gen_awards(&mut r, deposit, sym);
        let aj = awards_json(&aw, &mut r);
        let no_file = r.chance(1, 20);
        // the deposit row's own Price column is empty in Schwab's exports, but now and then it carries a figure
        // (or a null): the acquisition is priced from the awards file or not at all, never from that column
        let row_price = match r.below(5) { 0 => json!("$123.45"), 1 => json!("77"), 2 => serde_json::Value::Null, _ => json!("") };
        // every fourth deposit is booked late: `posted as of deposit` — the deposit date is the one that counts
        let date_cell = if i % 4 == 1 { format!("{} as of {}", us(deposit + Duration::days(1 + (i % 9) as i64)), us(deposit)) } else { us(deposit) };
        let tj = json!({"BrokerageTransactions": [{"Date": date_cell, "Action": "Stock Plan Activity", "Symbol": sym, "Description": "RS", "Quantity": "10", "Price": row_price, "Fees & Comm": "", "Amount": ""}]}).to_string();
        let input = SchwabInput { transactions_json: tj, awards_json: if no_file { None } else { Some(aj.clone()) } };
        let res = std::panic::catch_unwind(|| SchwabConverter::new().convert(&input));
        let case_text = format!("# property C19\n# deposit {} {}\n# awards file{}:\n{}\n", sym, deposit, if no_file { " (not given)" } else { "" }, aj);
        let got: Result<(NaiveDate, Decimal), String> = match res {
            Err(p) => { ctx.ev.violation("crash", crate::run_impl::panic_msg(p), case_text.clone()); continue; }
            Ok(Err(e)) => Err(e.to_string()),
            Ok(Ok(out)) => {
                let line = out.cgt_content.lines().find(|l| l.contains(" BUY ")).unwrap_or("").to_string();
                let w: Vec<&str> = line.split_whitespace().collect();
                match (w.first().and_then(|d| NaiveDate::parse_from_str(d, "%Y-%m-%d").ok()), w.get(5).and_then(|p| p.parse::<Decimal>().ok())) { (Some(d), Some(p)) => Ok((d, p)), _ => Err(format!("no BUY line in: {}", out.cgt_content)) }
            }
        };
        let exp = if no_file { Ok(None) } else { expected(&aw, deposit, sym) };
        match (&got, &exp) {
            (Ok((d, p)), Ok(Some((ed, ep)))) => {
                ctx.ev.count("priced");
                if d != ed || p != ep { ctx.ev.violation("oracle", format!("RSU deposit of {sym} on {deposit} is dated {d} and priced {p}; the awards entry to use is {ed} at {ep}"), case_text.clone()); }
                if *ed != deposit { ctx.ev.count("lookback-used"); ctx.ev.nontrivial.insert(case_text.clone()); }
            }
            (Err(msg), Ok(None)) => {
                ctx.ev.count("no-entry-error");
                if !(msg.contains(sym) && msg.contains(&deposit.to_string())) { ctx.ev.violation("oracle", format!("the failure does not name the symbol and date: {msg}"), case_text.clone()); }
            }
            (Err(_), Err(())) => ctx.ev.count("awards-file-rejected"),
            (Ok((d, p)), Ok(None)) => ctx.ev.violation("oracle", format!("no awards entry for {sym} within 7 days before {deposit}, yet the deposit is dated {d} and priced {p}"), case_text.clone()),
            (Ok(_), Err(())) => ctx.ev.violation("oracle", "an awards file with a vesting entry without details is accepted".into(), case_text.clone()),
            (Err(msg), Ok(Some((ed, ep)))) => ctx.ev.violation("oracle", format!("an entry for {sym} on {ed} ({ep}) is within the window of {deposit} but conversion fails: {msg}"), case_text.clone()),
        }
        if !no_file {
            if let Some(m) = ctx.model.as_mut() {
                ctx.ev.traces_validated += 1;
                let resp = m.ask(&format!("awards {} {} {}", sym, ord(deposit), awards_wire(&aw)));
                let imp = match &got { Ok((d, p)) => format!("ok {} #{}", ord(*d), Q::from_dec(*p).wire()), Err(msg) => if msg.contains("missing TransactionDetails") { "reject".into() } else { "none".into() } };
                let same = imp == resp || { let a: Vec<&str> = imp.split(' ').collect(); let b: Vec<&str> = resp.split(' ').collect(); a.len() == 3 && b.len() == 3 && a[1] == b[1] && Q::parse(a[2]).zip(Q::parse(b[2])).map(|(x, y)| x.eq(&y)).unwrap_or(false) };
                if !same { ctx.ev.violation("correspondence", format!("look-up: impl '{imp}' vs model '{resp}'"), case_text.clone()); }
            }
        }
        // several deposits of one symbol a few days apart in one export, rows oldest-first or
        // newest-first: every deposit is looked up on its own (no answer may depend on another row)
        if i % 3 == 0 && !no_file {
            let k = 2 + r.below(2) as usize;
            let mut deps: Vec<(NaiveDate, u32)> = vec![(deposit, 10)];
            for j in 1..k { let prev = deps[j - 1].0; deps.push((prev + Duration::days(r.range(1, 7)), 10 + j as u32)); }
            let mut aw2: Vec<GAward> = gen_awards(&mut r, deposit, sym);
            for (d, _) in deps.iter().skip(1) { aw2.extend(gen_awards(&mut r, *d, sym)); }
            let aj2 = awards_json(&aw2, &mut r);
            let mut rows: Vec<serde_json::Value> = deps.iter().map(|(d, q)| json!({"Date": us(*d), "Action": "Stock Plan Activity", "Symbol": if r.chance(1, 2) { sym.to_string() } else { recase(sym, &mut r) }, "Description": "RS", "Quantity": q.to_string(), "Price": if r.chance(1, 4) { "$55.55" } else { "" }, "Fees & Comm": "", "Amount": ""})).collect();
            let order = r.below(3);
            if order == 1 { rows.reverse(); } else if order == 2 { r.shuffle(&mut rows); }
            let tj2 = json!({"BrokerageTransactions": rows}).to_string();
            let exps: Vec<Result<Option<(NaiveDate, Decimal)>, ()>> = deps.iter().map(|(d, _)| expected(&aw2, *d, sym)).collect();
            if exps.iter().all(|e| matches!(e, Ok(Some(_)))) {
                ctx.ev.evaluations += 1;
                ctx.ev.count("multi-deposit-exports");
                let case2 = format!("# property C19\n# export (rows in this order):\n{tj2}\n# awards file:\n{aj2}\n");
                let input2 = SchwabInput { transactions_json: tj2.clone(), awards_json: Some(aj2.clone()) };
                match std::panic::catch_unwind(|| SchwabConverter::new().convert(&input2)) {
                    Err(p) => ctx.ev.violation("crash", crate::run_impl::panic_msg(p), case2.clone()),
                    Ok(Err(e)) => ctx.ev.violation("oracle", format!("every deposit has an awards entry in its window but the conversion fails: {e}"), case2.clone()),
                    Ok(Ok(out)) => {
                        for ((d, q), e) in deps.iter().zip(&exps) {
                            let Ok(Some((ed, ep))) = e else { continue };
                            let line = out.cgt_content.lines().find(|l| { let w: Vec<&str> = l.split_whitespace().collect(); w.get(1) == Some(&"BUY") && w.get(3) == Some(&q.to_string().as_str()) }).unwrap_or("");
                            let w: Vec<&str> = line.split_whitespace().collect();
                            let got = (w.first().and_then(|x| NaiveDate::parse_from_str(x, "%Y-%m-%d").ok()), w.get(5).and_then(|p| p.parse::<Decimal>().ok()));
                            if got != (Some(*ed), Some(*ep)) {
                                ctx.ev.violation("oracle", format!("in an export with {k} deposits, the deposit of {q} {sym} on {d} is written as '{line}'; the awards entry to use is {ed} at {ep}"), case2.clone());
                                break;
                            }
                        }
                    }
                }
            }
        }
        if i < 2 { ctx.ev.sample(json!({"deposit": deposit.to_string(), "symbol": sym, "awards": serde_json::from_str::<serde_json::Value>(&aj).unwrap_or_default()})); }
    }
}
