//! C02 — share conservation.
//! correspondence: quantities only (legs, holdings). oracle: the three equalities of the property
//! evaluated on the implementation's own matcher output and on the input lines.
use super::*;
use crate::q::Q;
use crate::rep::{self, Proj, RMatchT};
use crate::run_impl;
use chrono::NaiveDate;
use serde_json::json;

/// factor converting share counts at the end of `from` (after that day's splits) … no: from the
/// state *before* day `from`'s splits to the state at the *start* of day `to`: product of the
/// split factors dated in [from, to).
fn k_between(l: &[GTx], ticker: &str, from: NaiveDate, to: NaiveDate) -> Q {
    let mut k = Q::int(1);
    for t in l {
        if t.ticker == ticker && t.date >= from && t.date < to {
            match t.kind {
                Kind::Split => k = k.mul(&Q::from_dec(t.a)),
                Kind::Unsplit => { if !t.a.is_zero() { k = k.div(&Q::from_dec(t.a)) } }
                _ => {}
            }
        }
    }
    k
}

fn k_to_end(l: &[GTx], ticker: &str, from: NaiveDate) -> Q {
    k_between(l, ticker, from, NaiveDate::MAX)
}

pub fn oracle(l: &[GTx], out: &[RMatchT]) -> Option<String> {
    let tol = 18;
    let mut tickers: Vec<&str> = l.iter().map(|t| t.ticker.as_str()).collect();
    tickers.sort();
    tickers.dedup();
    for tk in tickers {
        let empty = RMatchT { ticker: tk.to_string(), pool: None, legs: vec![] };
        let r = out.iter().find(|x| x.ticker == tk).unwrap_or(&empty);
        // (1) legs of each disposal add up to the quantity sold that day
        let mut dates: Vec<NaiveDate> = l.iter().filter(|t| t.ticker == tk && t.kind == Kind::Sell).map(|t| t.date).collect();
        dates.sort();
        dates.dedup();
        for d in &dates {
            let sold = Q::sum(l.iter().filter(|t| t.ticker == tk && t.kind == Kind::Sell && t.date == *d).map(|t| Q::from_dec(t.a)).collect::<Vec<_>>().iter());
            let legs = Q::sum(r.legs.iter().filter(|x| x.sell_date == *d).map(|x| x.qty.clone()).collect::<Vec<_>>().iter());
            if !sold.close(&legs, tol) {
                return Some(format!("{tk} {d}: sold {} but legs add up to {}", sold.approx(), legs.approx()));
            }
        }
        for x in &r.legs {
            if !dates.contains(&x.sell_date) {
                return Some(format!("{tk}: a leg is dated {} where nothing was sold", x.sell_date));
            }
            if x.qty.is_neg() {
                return Some(format!("{tk} {}: leg with negative quantity {}", x.sell_date, x.qty.approx()));
            }
        }
        // (2) no acquisition day is over-used (same-day + 30-day legs, in that day's units)
        let mut bdates: Vec<NaiveDate> = r.legs.iter().filter_map(|x| x.acq).collect();
        bdates.sort();
        bdates.dedup();
        for b in &bdates {
            let bought = Q::sum(l.iter().filter(|t| t.ticker == tk && t.kind == Kind::Buy && t.date == *b).map(|t| Q::from_dec(t.a)).collect::<Vec<_>>().iter());
            let mut used = Q::zero();
            for x in r.legs.iter().filter(|x| x.acq == Some(*b)) {
                // leg quantity is in the disposal day's units; splits dated on the disposal day
                // up to (not including) the acquisition day lie between
                let k = if x.sell_date == *b { Q::int(1) } else { k_between(l, tk, x.sell_date, *b) };
                used = used.add(&x.qty.mul(&k));
            }
            if bought.add(&Q::new(1.into(), num_bigint::BigInt::from(10u32).pow(tol))).lt(&used) {
                return Some(format!("{tk}: {} shares matched against the {} acquired on {b}", used.approx(), bought.approx()));
            }
        }
        // (3) closing holding = Σ acquisitions − Σ disposals, rescaled to the end
        let mut expect = Q::zero();
        for t in l.iter().filter(|t| t.ticker == tk) {
            match t.kind {
                Kind::Buy => expect = expect.add(&Q::from_dec(t.a).mul(&k_to_end(l, tk, t.date))),
                Kind::Sell => expect = expect.sub(&Q::from_dec(t.a).mul(&k_to_end(l, tk, t.date))),
                _ => {}
            }
        }
        let got = r.pool.as_ref().map(|p| p.0.clone()).unwrap_or_else(Q::zero);
        if !expect.close(&got, tol) {
            return Some(format!("{tk}: closing holding {} but acquisitions − disposals (rescaled) = {}", got.approx(), expect.approx()));
        }
    }
    None
}

pub fn nontrivial(l: &[GTx], out: &[RMatchT]) -> bool {
    // a disposal spread over ≥ 2 rules, or a 30-day leg across a split
    out.iter().any(|t| {
        let mut dates: Vec<_> = t.legs.iter().map(|x| x.sell_date).collect();
        dates.dedup();
        dates.iter().any(|d| {
            let mut rules: Vec<&str> = t.legs.iter().filter(|x| x.sell_date == *d).map(|x| x.rule.as_str()).collect();
            rules.sort();
            rules.dedup();
            rules.len() >= 2
        })
    }) || (has_splits(l) && out.iter().any(|t| t.legs.iter().any(|x| x.rule == "BedAndBreakfast")))
}

pub fn run(ctx: &mut Ctx) {
    let prop = "C02";
    let mut cfg = GenCfg::standard();
    cfg.cost_events = false;
    cfg.dividends = false;
    let n = ctx.n(600, 40_000);
    let cases = matcher_cases(prop, ctx, &cfg, n);
    ctx.ev.rule = "corpus + repo fixtures + generated ledgers (1–3 securities, 2–14 lines, dates clustered on window edges / month ends / 5–6 April, exact split ratios, fractional quantities; every third a contention shape). Report level: every reported disposal's legs and quantity add up to that day's SELL lines, one disposal per (date, security) with sales. Compared (projection of this property): accept/reject, per-disposal-day leg quantity totals, closing holding quantities. Non-trivial = accepted ledger in which a disposal is spread over ≥ 2 rules or a 30-day leg crosses a split; distinct by ledger text.".into();
    let proj = Proj { money: false, qty: true, legs_exact: true, holdings: true, err_detail: false, legs_day_totals: true, legs_none: false };
    let mut cli_left: u32 = if ctx.tier == Tier::Quick { 8 } else { 80 };
    for (name, l) in cases {
        if cli_left > 0 && well_formed(&l) && l.len() >= 3 { cli_left -= 1; cli_crosscheck(ctx, prop, &l, None); }
        ctx.ev.evaluations += 1;
        // (a) at report level too: each reported disposal's legs add up to the quantity sold that day, which is
        // the sum of that day's SELL lines (the calculator regroups the matcher's legs into disposals)
        if well_formed(&l) {
            if let Ok(rep) = run_impl::impl_calc(&l, None, &run_impl::wide_exemptions()) {
                for d in rep.years.iter().flat_map(|y| y.disposals.iter()) {
                    let legs = Q::sum(d.legs.iter().map(|x| &x.qty));
                    let sold = Q::sum(l.iter().filter(|t| t.kind == Kind::Sell && t.ticker == d.ticker && t.date == d.date).map(|t| Q::from_dec(t.a)).collect::<Vec<_>>().iter());
                    // (quantities rescaled across splits are computed values: 10⁻¹⁸ relative, as everywhere else)
                    if !legs.close(&sold, 18) || !d.qty.close(&sold, 18) {
                        let what = format!("{} {}: the report's legs add up to {}, its quantity is {}, but {} were sold that day", d.date, d.ticker, legs.approx(), d.qty.approx(), sold.approx());
                        ctx.ev.violation("oracle", what.clone(), replay_text(prop, "oracle (a), report level: cgt-tool report --format json", &what, &l, &[format!("case {name}")]));
                        break;
                    }
                }
                let listed = rep.years.iter().flat_map(|y| y.disposals.iter()).count();
                let mut keys: Vec<(chrono::NaiveDate, &str)> = l.iter().filter(|t| t.kind == Kind::Sell).map(|t| (t.date, t.ticker.as_str())).collect();
                keys.sort(); keys.dedup();
                if listed != keys.len() {
                    let what = format!("the report lists {listed} disposals but the ledger has sales on {} (date, security) pairs", keys.len());
                    ctx.ev.violation("oracle", what.clone(), replay_text(prop, "oracle (a), report level", &what, &l, &[format!("case {name}")]));
                }
            }
        }
        let imp = run_impl::impl_match(&l);
        let msd = multi_sell_day(&l);
        if msd { ctx.ev.count("multiSellDay"); }
        match &imp {
            Ok(out) => {
                ctx.ev.count("accepted");
                for t in out { for x in &t.legs { ctx.ev.count(&format!("leg:{}", x.rule)); } }
                if nontrivial(&l, out) { ctx.ev.nontrivial.insert(ledger::dsl(&l)); }
                if let Some(what) = oracle(&l, out) {
                    let mut f = |c: &Ledger| matches!(run_impl::impl_match(c), Ok(o) if oracle(c, &o).is_some());
                    let small = ledger::shrink(&l, &mut f);
                    let what2 = match run_impl::impl_match(&small) { Ok(o) => oracle(&small, &o).unwrap_or(what.clone()), _ => what.clone() };
                    ctx.ev.violation("oracle", what2.clone(), replay_text(prop, "oracle", &what2, &small, &[format!("case {name}")]));
                }
            }
            Err(e) => {
                ctx.ev.count(&format!("rejected:{}", e.kind));
                if e.kind == "panic" {
                    ctx.ev.violation("crash", format!("panic: {}", e.detail), replay_text(prop, "crash", &e.detail, &l, &[format!("case {name}")]));
                }
            }
        }
        if let Some(m) = ctx.model.as_mut() {
            match run_impl::model_match(m, &l) {
                Err(e) => ctx.ev.violation("correspondence", format!("driver: {e}"), replay_text(prop, "correspondence", &e, &l, &[])),
                Ok(mo) => {
                    let mut p = proj;
                    if msd { p.legs_exact = false; }
                    ctx.ev.traces_validated += 1;
                    if let Some(what) = rep::diff_match(&imp, &mo, &p) {
                        let mut f = |c: &Ledger| {
                            let i = run_impl::impl_match(c);
                            let mut pp = proj;
                            if multi_sell_day(c) { pp.legs_exact = false; }
                            match run_impl::model_match(m, c) { Ok(mo) => rep::diff_match(&i, &mo, &pp).is_some(), Err(_) => false }
                        };
                        let small = ledger::shrink(&l, &mut f);
                        ctx.ev.violation("correspondence", what.clone(), replay_text(prop, "correspondence (implementation vs Lean model, quantities)", &what, &small, &[format!("case {name}")]));
                    }
                }
            }
        }
        if ctx.ev.samples.len() < 3 && imp.is_ok() && l.len() >= 4 {
            ctx.ev.sample(json!({"case": name, "ledger": ledger::dsl(&l).lines().collect::<Vec<_>>()}));
        }
    }
}
