//! C16 — deterministic, canonically ordered output.
use super::*;
use crate::cli;
use crate::rng::Rng;
use crate::run_impl;
use chrono::Duration;
use rust_decimal::Decimal;
use serde_json::json;

/// many securities (several fully sold), many disposals per date, several tax years
fn gen_wide(r: &mut Rng) -> Ledger {
    let nt = 6 + r.below(8) as usize;
    let mut l: Ledger = Vec::new();
    let d0 = ledger::d(2019 + r.below(3) as i32, 3, 20);
    let sell_days: Vec<i64> = (0..(2 + r.below(4))).map(|k| 30 + k as i64 * *r.pick(&[5i64, 200, 400])).collect();
    // half of the ledgers use tickers that are prefixes of one another, in mixed case
    const FAMILY: &[&str] = &["G", "GO", "GOO", "GOOG", "GOOGL", "BT", "BTA", "bt1", "RR", "RRS", "rr", "A", "AA", "AAA"];
    let family = r.chance(1, 2);
    for ti in 0..nt {
        let tk = if family { FAMILY[ti % FAMILY.len()] } else { ledger::TICKERS[ti] };
        let q = Decimal::from(100);
        l.push(GTx::new(d0 + Duration::days(r.range(0, 10)), tk, Kind::Buy, q, ledger::gen_price(r), Decimal::ZERO));
        let full = r.chance(1, 2);
        let k = sell_days.len();
        for (i, sd) in sell_days.iter().enumerate() {
            if r.chance(1, 4) { continue; }
            let part = if full && i + 1 == k { Decimal::from(100) - Decimal::from(10 * i as i64) } else { Decimal::from(10) };
            if part <= Decimal::ZERO { continue; }
            l.push(GTx::new(d0 + Duration::days(*sd), tk, Kind::Sell, if full && i + 1 == k { part } else { Decimal::from(10).min(part) }, ledger::gen_price(r), Decimal::ZERO));
        }
        if r.chance(1, 3) { l.push(GTx::new(d0 + Duration::days(15), tk, Kind::Dividend, Decimal::from(5), Decimal::ZERO, Decimal::ZERO)); }
    }
    r.shuffle(&mut l);
    l
}

pub fn run(ctx: &mut Ctx) {
    let prop = "C16";
    ctx.ev.rule = "wide ledgers (6–13 securities, half of them with tickers that are prefixes of one another, about half fully sold, 2–5 shared disposal dates spread over several tax years, shuffled lines) the standard generated ledgers, and order-sensitive-sum ledgers (one disposal identified with 3–6 later purchases of very different sizes behind a SPLIT whose ratio divides none of them, a second disposal of exactly the rest of the holding): (a) calculate() run 4 times (8 for the sum shape) in-process (each HashMap draws a fresh seed) must give equal reports, and a refused ledger the same refusal text 6 times; tax years ascending, disposals by (date, ticker), holdings by ticker; (a′) the same for the single-year report of each of up to two years with ≥ 2 disposals; (b) the real binary run 3 times as separate processes for `report --format plain`, `report --format json`, `report --year Y --format json` and `parse` must give byte-identical stdout; echoed transactions in the text report by (date, ticker); (e) reports priced in a currency that its month's rate file lists twice with different rates (bundled XCD 2015-04; a --fx-folder file), 8 processes; (d) `report --year` with a ./config.toml that spells one year several ways, 8 separate processes; (c) the Schwab converter: generated exports, and dividends with several withholding rows on the same day and up to three days later, converted 6 times in-process and by 3 separate processes — same text apart from the `# Converted:` line; whole report compared with the Lean model (which has no hash maps; not for the sum shape, whose 28-digit rounding exact rationals do not reproduce). Non-trivial = ledgers with ≥ 6 securities and ≥ 2 fully sold; distinct by ledger text.".into();

    // the exemption configuration: an override file may spell one year in several ways ("2024", "02024",
    // "+2024" all read as the year 2024); whichever entry counts, it must be the same one in every process
    if cli::available() {
        let mut rr = Rng::new(ctx.seed ^ 0xC16F);
        for i in 0..ctx.n(3, 60) {
            let sc = cli::Scratch::new();
            sc.write("in.cgt", "2024-05-01 BUY AAA 10 @ 1\n2024-06-01 SELL AAA 5 @ 2\n");
            let mut spellings = vec!["2024".to_string(), "02024".to_string(), "+2024".to_string(), "002024".to_string(), "0002024".to_string()];
            rr.shuffle(&mut spellings);
            spellings.truncate(2 + rr.below(4) as usize);
            let body: String = spellings.iter().enumerate().map(|(k, sp)| format!("\"{sp}\" = {}\n", 1000 * (k as i64 + 1) + i as i64)).collect();
            sc.write("config.toml", &format!("[exemptions]\n{body}"));
            ctx.ev.evaluations += 1;
            ctx.ev.count("config-spelling-cases");
            let args = ["report", "in.cgt", "--year", "2024", "--format", "json"];
            let a = cli::run(&sc, &args);
            for _ in 0..7 {
                let b = cli::run(&sc, &args);
                ctx.ev.count("cli-runs");
                if a.stdout != b.stdout || a.code != b.code {
                    let ex = |o: &cli::CliOut| serde_json::from_slice::<serde_json::Value>(&o.stdout).ok().map(|v| v["tax_years"][0]["exempt_amount"].to_string()).unwrap_or_else(|| format!("exit {:?}", o.code));
                    ctx.ev.violation("oracle", format!("`cgt-tool {}` with one ./config.toml prints different reports in different processes (exemption {} vs {})", args.join(" "), ex(&a), ex(&b)), format!("# property C16\n# oracle: process non-determinism; ./config.toml is:\n# [exemptions]\n{}# ledger:\n2024-05-01 BUY AAA 10 @ 1\n2024-06-01 SELL AAA 5 @ 2\n", body.lines().map(|l| format!("# {l}\n")).collect::<String>()));
                    break;
                }
            }
        }
    }
    // exchange rates: a month's file may list one currency twice with different rates (the bundled April 2015
    // file lists XCD at 3.9831 and at 3.983); whichever row counts, it is the same one in every process —
    // with the bundled rates and with a rates folder of the user's
    if cli::available() {
        let sc = cli::Scratch::new();
        sc.write("xcd.cgt", "2015-04-07 BUY AAA 1000 @ 17.77 XCD FEES 3 XCD\n2015-04-20 SELL AAA 400 @ 31.13 XCD FEES 2.5 XCD\n");
        std::fs::create_dir_all(sc.path("rates")).expect("mkdir");
        let row = |code: &str, rate: &str| format!("  <exchangeRate><countryName>X</countryName><countryCode>XX</countryCode><currencyName>Y</currencyName><currencyCode>{code}</currencyCode><rateNew>{rate}</rateNew></exchangeRate>\n");
        sc.write("rates/2024-03.xml", &format!("<exchangeRateMonthList Period=\"01/Mar/2024 to 31/Mar/2024\">\n{}{}{}{}{}</exchangeRateMonthList>\n", row("USD", "1.2701"), row("EUR", "1.17"), row("USD", "1.2650"), row("USD", "1.2888"), row("USD", "1.2701")));
        sc.write("usd.cgt", "2024-03-05 BUY AAA 100 @ 20 USD\n2024-03-25 SELL AAA 40 @ 33.33 USD\n");
        for args in [vec!["report", "xcd.cgt", "--year", "2015", "--format", "json"], vec!["report", "xcd.cgt", "--year", "2015", "--format", "plain"], vec!["report", "usd.cgt", "--fx-folder", "rates", "--format", "json"]] {
            ctx.ev.evaluations += 1;
            ctx.ev.count("duplicate-rate-row-cases");
            let a = cli::run(&sc, &args);
            for _ in 0..7 {
                let b = cli::run(&sc, &args);
                ctx.ev.count("cli-runs");
                if a.stdout != b.stdout || a.code != b.code {
                    ctx.ev.violation("oracle", format!("`cgt-tool {}` prints different reports in different processes (a currency listed twice, with different rates, in the month's rate file)", args.join(" ")), format!("# property C16\n# oracle: process non-determinism; run the command below several times{}\n# cgt-tool {}\n{}", if args.contains(&"--fx-folder") { "; rates/2024-03.xml lists USD at 1.2701, 1.2650, 1.2888, 1.2701" } else { " (bundled rates: 2015-04 lists XCD twice)" }, args.join(" "), if args[1] == "xcd.cgt" { "2015-04-07 BUY AAA 1000 @ 17.77 XCD FEES 3 XCD\n2015-04-20 SELL AAA 400 @ 31.13 XCD FEES 2.5 XCD\n" } else { "2024-03-05 BUY AAA 100 @ 20 USD\n2024-03-25 SELL AAA 40 @ 33.33 USD\n" }));
                    break;
                }
            }
        }
    }
    // the converter: the same export converted 6 times in-process (fresh hash maps each time) and by 3
    // separate processes must give the same text, apart from the `# Converted:` time stamp line.
    // Exports: the generated ones of C18, plus dividends whose withholding rows are dated on the same day,
    // one to three days later, or both, several per symbol with different amounts, in shuffled row order
    {
        use cgt_converter::{BrokerConverter, schwab::{SchwabConverter, SchwabInput}};
        let mut rr = Rng::new(ctx.seed ^ 0xC16C);
        let strip = |t: &str| -> String { t.lines().filter(|l| !l.starts_with("# Converted:")).collect::<Vec<_>>().join("\n") };
        let mut cli_left: u32 = if ctx.tier == Tier::Quick { 4 } else { 40 };
        for i in 0..ctx.n(60, 3000) {
            let jt = if i % 2 == 0 { super::c18::gen_export(&mut rr) } else {
                let mut rows: Vec<serde_json::Value> = Vec::new();
                let us = |d: chrono::NaiveDate| format!("{:02}/{:02}/{}", chrono::Datelike::month(&d), chrono::Datelike::day(&d), chrono::Datelike::year(&d));
                for si in 0..(1 + rr.below(2)) {
                    let sym = ["AAA", "BBB"][si as usize];
                    let d0 = ledger::d(2021 + rr.below(3) as i32, 1 + rr.below(12) as u32, 1 + rr.below(25) as u32);
                    for k in 0..(1 + rr.below(3)) {
                        let d = d0 + Duration::days(k as i64 * rr.range(0, 3));
                        rows.push(json!({"Date": us(d), "Action": *rr.pick(&["Cash Dividend", "Qualified Dividend"]), "Symbol": sym, "Description": "DIV", "Quantity": "", "Price": "", "Fees & Comm": "", "Amount": format!("${}.00", rr.range(5, 500))}));
                    }
                    for _ in 0..(2 + rr.below(3)) {
                        let d = d0 + Duration::days(rr.range(0, 4));
                        rows.push(json!({"Date": us(d), "Action": *rr.pick(&["NRA Tax Adj", "NRA Withholding"]), "Symbol": sym, "Description": "TAX", "Quantity": "", "Price": "", "Fees & Comm": "", "Amount": format!("-${}.{:02}", rr.range(1, 60), rr.below(100))}));
                    }
                }
                rr.shuffle(&mut rows);
                json!({"BrokerageTransactions": rows}).to_string()
            };
            ctx.ev.evaluations += 1;
            ctx.ev.count("converter-exports");
            let input = SchwabInput { transactions_json: jt.clone(), awards_json: None };
            let run1 = |inp: &SchwabInput| std::panic::catch_unwind(|| SchwabConverter::new().convert(inp).map(|o| o.cgt_content).map_err(|e| e.to_string()));
            let Ok(first) = run1(&input) else { continue };
            let a = match &first { Ok(t) => strip(t), Err(e) => format!("error: {e}") };
            for k in 0..5 {
                let b = match run1(&input) { Ok(Ok(t)) => strip(&t), Ok(Err(e)) => format!("error: {e}"), Err(_) => "panic".into() };
                if a != b {
                    let (la, lb) = a.lines().zip(b.lines()).find(|(x, y)| x != y).map(|(x, y)| (x.to_string(), y.to_string())).unwrap_or_default();
                    ctx.ev.violation("oracle", format!("run {} of the converter on the same export gives different text: `{la}` vs `{lb}`", k + 2), format!("# property C16\n# oracle: convert schwab, repeated\n{jt}\n"));
                    break;
                }
            }
            if cli_left > 0 && i % 2 == 1 && cli::available() {
                cli_left -= 1;
                let sc = cli::Scratch::new();
                sc.write("export.json", &jt);
                let o1 = cli::run(&sc, &["convert", "schwab", "export.json"]);
                ctx.ev.count("cli-runs");
                for _ in 0..2 {
                    let o2 = cli::run(&sc, &["convert", "schwab", "export.json"]);
                    if o1.code != o2.code || strip(&String::from_utf8_lossy(&o1.stdout)) != strip(&String::from_utf8_lossy(&o2.stdout)) {
                        ctx.ev.violation("oracle", "`cgt-tool convert schwab` prints different text in two processes (time stamp line aside)".into(), format!("# property C16\n# oracle: convert schwab, separate processes\n{jt}\n"));
                        break;
                    }
                }
            }
        }
    }
    let ex = run_impl::wide_exemptions();
    let mut r = Rng::new(ctx.seed ^ 0xC16);
    let cfg = GenCfg::standard();
    let mut cases: Vec<(String, Ledger)> = Vec::new();
    for i in 0..ctx.n(40, 2000) { cases.push((format!("wide#{i}"), gen_wide(&mut r))); }
    for i in 0..ctx.n(24, 1200) { cases.push((format!("claimsum#{i}"), ledger::gen_claim_sum(&mut r))); }
    cases.extend(matcher_cases(prop, ctx, &cfg, ctx.n(100, 5000)));
    let have_cli = cli::available();
    let mut cli_budget: i64 = if ctx.tier == Tier::Quick { 12 } else { 300 };
    let mut multi_budget: i64 = if ctx.tier == Tier::Quick { 4 } else { 60 };
    for (name, l) in cases {
        ctx.ev.evaluations += 1;
        // the sum shape divides by ratios with non-terminating reciprocals: the implementation rounds to 28
        // digits where the model's rationals do not, so it is compared run against run only
        let exact = !name.starts_with("claimsum");
        let first = run_impl::impl_calc_raw(&l, None, &ex);
        let Ok(Ok(rep)) = &first else {
            ctx.ev.count("rejected");
            // a refusal is output too: the same refusal, word for word, on every run
            let show = |o: &Result<Result<cgt_core::TaxReport, cgt_core::CgtError>, String>| match o { Ok(Ok(_)) => "accepted".to_string(), Ok(Err(e)) => e.to_string(), Err(p) => format!("panic: {p}") };
            let a = show(&first);
            for k in 0..5 {
                let b = show(&run_impl::impl_calc_raw(&l, None, &ex));
                if a != b {
                    ctx.ev.violation("oracle", format!("run {} of calculate() on the same input ends differently: first `{}`, then `{}`", k + 2, a.lines().next().unwrap_or(""), b.lines().next().unwrap_or("")), replay_text(prop, "oracle", "non-deterministic refusal", &l, &[format!("case {name}")]));
                    break;
                }
            }
            continue
        };
        ctx.ev.count("accepted");
        let sold_out = rep.holdings.iter().filter(|h| h.quantity.is_zero()).count();
        if rep.holdings.len() >= 6 && sold_out >= 2 { ctx.ev.nontrivial.insert(ledger::dsl(&l)); }
        for k in 0..(if name.starts_with("claimsum") { 7 } else { 3 }) {
            match run_impl::impl_calc_raw(&l, None, &ex) {
                Ok(Ok(again)) => if again != *rep {
                    ctx.ev.violation("oracle", format!("run {} of calculate() on the same input gives a different report", k + 2), replay_text(prop, "oracle", "non-deterministic report", &l, &[format!("case {name}")]));
                    break;
                },
                _ => { ctx.ev.violation("oracle", "calculate() succeeds once and fails on a rerun".into(), replay_text(prop, "oracle", "non-deterministic acceptance", &l, &[])); break; }
            }
        }
        // canonical orders
        let years: Vec<u16> = rep.tax_years.iter().map(|y| y.period.start_year()).collect();
        if years.windows(2).any(|w| w[0] >= w[1]) { ctx.ev.violation("oracle", format!("tax years not ascending: {years:?}"), replay_text(prop, "oracle", "order", &l, &[])); }
        for y in &rep.tax_years {
            let keys: Vec<(chrono::NaiveDate, &str)> = y.disposals.iter().map(|d| (d.date, d.ticker.as_str())).collect();
            if keys.windows(2).any(|w| w[0] >= w[1]) { ctx.ev.violation("oracle", format!("disposals of {} not ordered by date then ticker", y.period.start_year()), replay_text(prop, "oracle", "order", &l, &[format!("case {name}")])); }
        }
        let hs: Vec<&str> = rep.holdings.iter().map(|h| h.ticker.as_str()).collect();
        if hs.windows(2).any(|w| w[0] >= w[1]) { ctx.ev.violation("oracle", format!("holdings not ordered by ticker: {hs:?}"), replay_text(prop, "oracle", "holdings order", &l, &[format!("case {name}")])); }
        // the single-year report (`--year`, MCP/wasm with a year) goes through a different builder:
        // same canonical order, same determinism, and equal to the model's
        for y in rep.tax_years.iter().filter(|y| y.disposals.len() >= 2).take(2) {
            let yy = y.period.start_year() as i32;
            ctx.ev.count("single-year-reports");
            let one = run_impl::impl_calc_raw(&l, Some(yy), &ex);
            let Ok(Ok(one)) = &one else { ctx.ev.violation("oracle", format!("the all-years report is produced but the report for {yy} fails"), replay_text(prop, "oracle", "single-year report", &l, &[format!("case {name}")])); continue };
            for ys in &one.tax_years {
                let keys: Vec<(chrono::NaiveDate, &str)> = ys.disposals.iter().map(|d| (d.date, d.ticker.as_str())).collect();
                if keys.windows(2).any(|w| w[0] >= w[1]) { ctx.ev.violation("oracle", format!("disposals of the single-year report for {yy} not ordered by date then ticker"), replay_text(prop, "oracle: run `cgt-tool report in.cgt --year <that year> --format json`", "order in the single-year report", &l, &[format!("case {name}"), format!("year {yy}")])); }
            }
            for _ in 0..2 {
                if let Ok(Ok(again)) = run_impl::impl_calc_raw(&l, Some(yy), &ex) { if again != *one { ctx.ev.violation("oracle", format!("two runs of the report for {yy} differ"), replay_text(prop, "oracle", "non-deterministic single-year report", &l, &[format!("case {name}"), format!("year {yy}")])); break; } }
            }
            if let Some(m) = ctx.model.as_mut().filter(|_| exact) {
                if let Ok(mo) = run_impl::model_calc(m, &l, Some(yy), &ex) {
                    ctx.ev.traces_validated += 1;
                    let mut p = crate::rep::Proj::full();
                    if multi_sell_day(&l) { p.legs_exact = false; }
                    p.err_detail = false;
                    if let Some(what) = crate::rep::diff_report(&Ok(crate::rep::from_report(one)), &mo, &p) {
                        ctx.ev.violation("correspondence", format!("report for {yy}: {what}"), replay_text(prop, "correspondence (implementation vs Lean model, single-year report)", &what, &l, &[format!("case {name}"), format!("year {yy}")]));
                    }
                }
            }
        }
        // separate processes
        if have_cli && cli_budget > 0 && rep.holdings.len() >= 4 {
            cli_budget -= 1;
            let s = cli::Scratch::new();
            s.write("in.cgt", &ledger::dsl(&l));
            let year_arg = rep.tax_years.iter().max_by_key(|y| y.disposals.len()).map(|y| y.period.start_year().to_string()).unwrap_or_else(|| "2023".into());
            for args in [vec!["report", "in.cgt", "--format", "plain"], vec!["report", "in.cgt", "--format", "json"], vec!["report", "in.cgt", "--year", year_arg.as_str(), "--format", "json"], vec!["parse", "in.cgt"]] {
                let a = cli::run(&s, &args);
                ctx.ev.count("cli-runs");
                for _ in 0..2 {
                    let b = cli::run(&s, &args);
                    if a.stdout != b.stdout || a.code != b.code {
                        ctx.ev.violation("oracle", format!("`cgt-tool {}` prints different bytes in two processes", args.join(" ")), replay_text(prop, "oracle", "process non-determinism", &l, &[format!("case {name}")]));
                        break;
                    }
                }
                if args[0] == "report" && args[3] == "plain" {
                    // echoed BUY/SELL lines by date then ticker
                    let text = String::from_utf8_lossy(&a.stdout).to_string();
                    let sect: Vec<&str> = text.split("# TRANSACTIONS").nth(1).unwrap_or("").split("# ASSET EVENTS").next().unwrap_or("").lines().filter(|x| x.contains(" BUY ") || x.contains(" SELL ")).collect();
                    let keys: Vec<(chrono::NaiveDate, String)> = sect.iter().filter_map(|ln| { let w: Vec<&str> = ln.split_whitespace().collect(); Some((chrono::NaiveDate::parse_from_str(w.first()?, "%d/%m/%Y").ok()?, w.get(3)?.to_string())) }).collect();
                    if keys.windows(2).any(|w| w[0] > w[1]) { ctx.ev.violation("oracle", "echoed transactions in the text report are not ordered by date then ticker".into(), replay_text(prop, "oracle", "echo order", &l, &[])); }
                }
            }
        }
        // several input files, one of them named twice on the command line: read in the order given
        // (the repeated file twice), the same bytes in every process
        if have_cli && multi_budget > 0 && l.len() >= 4 {
            multi_budget -= 1;
            let s = cli::Scratch::new();
            let lines: Vec<String> = ledger::dsl(&l).lines().map(|x| x.to_string()).collect();
            let k = 3 + (l.len() % 3);
            let mut names: Vec<String> = Vec::new();
            let mut joined = String::new();
            for j in 0..k {
                let part: Vec<&str> = lines.iter().enumerate().filter(|(i, _)| i % k == j).map(|(_, x)| x.as_str()).collect();
                let nm = format!("q{}.cgt", j + 1);
                s.write(&nm, &(part.join("\n") + "\n"));
                names.push(nm);
            }
            let mut order: Vec<&str> = names.iter().map(|x| x.as_str()).collect();
            order.push(names[l.len() % k].as_str());
            for nm in &order { joined.push_str(&std::fs::read_to_string(s.path(nm)).unwrap_or_default()); joined.push('\n'); }
            s.write("all.cgt", &joined);
            let whole = cli::run(&s, &["parse", "all.cgt"]);
            for head in [vec!["parse"], vec!["report", "--format", "json"]] {
                let mut args: Vec<&str> = vec![head[0]];
                args.extend(order.iter().copied());
                args.extend(head[1..].iter().copied());
                let a = cli::run(&s, &args);
                ctx.ev.count("cli-runs-repeated-path");
                ctx.ev.evaluations += 1;
                let mut stable = true;
                for _ in 0..3 {
                    let b = cli::run(&s, &args);
                    if a.stdout != b.stdout || a.code != b.code { stable = false; break; }
                }
                if !stable {
                    ctx.ev.violation("oracle", format!("`cgt-tool {}` (one input named twice) prints different bytes in different processes", args.join(" ")), replay_text(prop, "oracle", "process non-determinism with a repeated input path", &l, &[format!("case {name}"), format!("lines dealt round-robin into {k} files; arguments {}", order.join(" "))]));
                } else if head[0] == "parse" && whole.code == Some(0) && (a.code != whole.code || a.stdout != whole.stdout) {
                    ctx.ev.violation("oracle", format!("`cgt-tool {}` does not read its inputs in the order given (differs from parsing their concatenation)", args.join(" ")), replay_text(prop, "oracle", "input files not read in argument order", &l, &[format!("case {name}"), format!("lines dealt round-robin into {k} files; arguments {}", order.join(" "))]));
                }
            }
        }
        if let Some(m) = ctx.model.as_mut().filter(|_| exact) {
            if let Ok(mo) = run_impl::model_calc(m, &l, None, &ex) {
                ctx.ev.traces_validated += 1;
                let mut p = crate::rep::Proj::full();
                if multi_sell_day(&l) { p.legs_exact = false; }
                p.err_detail = false;
                if let Some(what) = crate::rep::diff_report(&Ok(crate::rep::from_report(rep)), &mo, &p) {
                    ctx.ev.violation("correspondence", what.clone(), replay_text(prop, "correspondence (implementation vs Lean model)", &what, &l, &[format!("case {name}")]));
                }
            }
        }
        if ctx.ev.samples.len() < 2 && rep.holdings.len() >= 6 { ctx.ev.sample(json!({"case": name, "securities": rep.holdings.len(), "ledger_head": ledger::dsl(&l).lines().take(6).collect::<Vec<_>>()})); }
    }
}
