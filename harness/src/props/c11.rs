//! C11 — capital returns, accumulations, dividends.
use super::*;
use crate::q::Q;
use crate::rep::{self, Out, Proj, RMatchT};
use crate::rng::Rng;
use crate::run_impl;
use chrono::Duration;
use rust_decimal::Decimal;
use serde_json::json;

fn total_cost(out: &[RMatchT], tk: &str) -> Q {
    let Some(r) = out.iter().find(|x| x.ticker == tk) else { return Q::zero() };
    Q::sum(r.legs.iter().map(|x| &x.cost)).add(&r.pool.as_ref().map(|p| p.1.clone()).unwrap_or_else(Q::zero))
}

fn same_match(a: &Out<Vec<RMatchT>>, b: &Out<Vec<RMatchT>>, msd: bool) -> Option<String> {
    let mut p = Proj::full();
    p.err_detail = false;
    // several SELL lines on one day: a line between them (also a DIVIDEND) decides the leg partition (D17)
    if msd { p.legs_exact = false; }
    rep::diff_match(a, b, &p).map(|s| s.replace("impl ", "variant ").replace("model ", "base "))
}

pub fn run(ctx: &mut Ctx) {
    let prop = "C11";
    let mut cfg = GenCfg::standard();
    cfg.splits = true;
    let n = ctx.n(500, 30_000);
    // known finding inexactRatio (D3 seen through the pre-pass), probed with its witness on every run
    if let (Ok(w), Ok(b)) = (ledger::from_dsl("2022-06-20 BUY BBB 100 @ 1\n2022-07-16 BUY BBB 2 @ 1\n2022-07-16 UNSPLIT BBB RATIO 6\n2022-07-17 SELL BBB 7 @ 2\n2022-07-17 SELL BBB 10 @ 2\n2023-06-17 ACCUMULATION BBB 1 TOTAL 36.22 TAX 0\n2023-07-18 BUY BBB 20 @ 3\n"),
                             ledger::from_dsl("2022-06-20 BUY BBB 100 @ 1\n2022-07-16 BUY BBB 2 @ 1\n2022-07-16 UNSPLIT BBB RATIO 6\n2022-07-17 SELL BBB 7 @ 2\n2022-07-17 SELL BBB 10 @ 2\n2023-07-18 BUY BBB 20 @ 3\n")) {
        ctx.ev.evaluations += 1;
        if let (Ok(wo), Ok(bo)) = (run_impl::impl_match(&w), run_impl::impl_match(&b)) {
            if !total_cost(&wo, "BBB").close(&total_cost(&bo, "BBB"), 12) {
                ctx.ev.known("inexactRatio", "D3 seen through the cost pre-pass: after a SPLIT/UNSPLIT whose ratio does not divide exactly the lots' share counts carry 28-digit residue, so a security that was sold out can keep 10^-27 of a share, to which a later accumulation or capital return is attached in full");
            } else { ctx.ev.count("inexact-ratio-witness:no-effect"); }
        }
    }
    let mut cases = matcher_cases(prop, ctx, &cfg, n);
    // capital events of several securities on one date, one of them a security never bought (its line has
    // nothing to act on), in either line order: the others' events take effect all the same
    {
        use rust_decimal::Decimal;
        let mut rr = crate::rng::Rng::new(ctx.seed ^ 0xC11B);
        for i in 0..ctx.n(16, 600) {
            let d0 = ledger::d(2021 + rr.below(3) as i32, 1 + rr.below(12) as u32, 1 + rr.below(28) as u32);
            let day = d0 + Duration::days(rr.range(10, 300));
            let mut l: Ledger = vec![
                GTx::new(d0, "HELD", Kind::Buy, Decimal::from(100), Decimal::from(10), Decimal::ZERO),
                GTx::new(day, "NEVER", if rr.chance(1, 2) { Kind::CapReturn } else { Kind::Accumulation }, Decimal::from(10), Decimal::from(rr.range(1, 50)), Decimal::ZERO),
                GTx::new(day, "HELD", Kind::CapReturn, Decimal::from(100), Decimal::from(rr.range(1, 900)), Decimal::ZERO),
                GTx::new(day + Duration::days(rr.range(1, 90)), "HELD", Kind::Sell, Decimal::from(rr.range(1, 100)), Decimal::from(12), Decimal::ZERO),
            ];
            if rr.chance(1, 2) { l.swap(1, 2); }
            if rr.chance(1, 3) { l.push(GTx::new(day, "OTHER", Kind::CapReturn, Decimal::from(5), Decimal::from(2000), Decimal::ZERO)); l.push(GTx::new(d0, "OTHER", Kind::Buy, Decimal::from(5), Decimal::from(100), Decimal::ZERO)); }
            cases.push((format!("mixed-event-day#{i}"), l));
        }
    }
    // several cost events of one security on one date whose sum straddles the remaining expenditure
    {
        let mut r = Rng::new(ctx.seed ^ 0x5122);
        for i in 0..(n / 5) {
            let mut l: Ledger = Vec::new();
            let d0 = ledger::d(2024, 1, 1) + Duration::days(r.range(0, 300));
            let q = Decimal::from(*r.pick(&[1i64, 10, 100]));
            let p = Decimal::from(r.range(1, 200));
            l.push(GTx::new(d0, "AAA", Kind::Buy, q, p, ledger::gen_fee(&mut r, true)));
            if r.chance(1, 3) { l.push(GTx::new(d0 + Duration::days(5), "AAA", Kind::Buy, q, Decimal::from(r.range(1, 50)), Decimal::ZERO)); }
            if r.chance(1, 3) { l.push(GTx::new(d0 + Duration::days(8), "AAA", Kind::Sell, (q / Decimal::TWO).round_dp(0).max(Decimal::ONE), p, Decimal::ZERO)); }
            let cost = q * p;
            let e = d0 + Duration::days(r.range(10, 60));
            let k = 2 + r.below(2);
            for _ in 0..k {
                let frac = Decimal::new(r.range(30, 75), 2);
                let fee = if r.chance(1, 3) { Decimal::new(r.range(1, 500), 2) } else { Decimal::ZERO };
                l.push(GTx::new(e, "AAA", Kind::CapReturn, q, (cost * frac).round_dp(2) + fee, fee));
            }
            if r.chance(1, 3) { l.push(GTx::new(e, "AAA", Kind::Accumulation, q, (cost * Decimal::new(r.range(5, 60), 2)).round_dp(2), Decimal::ZERO)); }
            l.push(GTx::new(e + Duration::days(r.range(1, 90)), "AAA", Kind::Sell, Decimal::ONE, p, Decimal::ZERO));
            if r.chance(1, 2) { r.shuffle(&mut l); }
            cases.push((format!("multicap#{i}"), l));
        }
    }
    ctx.ev.rule = "corpus + fixtures + generated ledgers with CAPRETURN/ACCUMULATION/DIVIDEND at any position, plus ledgers with 2–3 capital returns (and sometimes an accumulation) of one security on one date whose sum straddles the remaining expenditure. Plus days on which several securities have capital events, one of them never bought, in either line order. Oracles on the real matcher: (a) removing every DIVIDEND line changes no leg and no holding; (b) inserting an ACCUMULATION and a CAPRETURN of equal net amount on one date (in either line order) changes nothing and is not refused; (c) inserting one ACCUMULATION of v on a date where shares are held (position rescaled by earlier splits) raises Σ legs' cost + closing cost of that security by exactly v and leaves other securities alone; a CAPRETURN lowers it by exactly its net amount or is refused with a message citing S122; (d) no leg or holding has negative allowable cost — except inside known-finding class negativeLot (D6), decided by the Lean model of the pre-pass. Correspondence: accept/refuse and costs vs the model. Non-trivial = ledgers with an effective cost event; distinct by ledger text.".into();
    let mut r = Rng::new(ctx.seed ^ 0xC11);
    let mut cli_left: u32 = if ctx.tier == Tier::Quick { 8 } else { 80 };
    for (name, l) in cases {
        if cli_left > 0 && well_formed(&l) && l.len() >= 3 { cli_left -= 1; cli_crosscheck(ctx, prop, &l, None); }
        if !well_formed(&l) || l.is_empty() { continue; }
        ctx.ev.evaluations += 1;
        let base = run_impl::impl_match(&l);
        if name.starts_with("mixed-event-day") {
            // HELD: 100 shares costing 1000; its capital return of v must lower that to 1000 − v, or be refused when v > 1000
            let v = l.iter().find(|t| t.ticker == "HELD" && t.kind == Kind::CapReturn).map(|t| Q::from_dec(t.b)).unwrap_or_else(Q::zero);
            let thousand = Q::int(1000);
            match &base {
                Ok(out) => {
                    let have = total_cost(out, "HELD");
                    let want = thousand.sub(&v);
                    if !have.close(&want, 12) {
                        let what = format!("HELD cost 1000 and received a capital return of {}: legs' cost + closing cost is {} instead of {}", v.approx(), have.approx(), want.approx());
                        ctx.ev.violation("oracle", what.clone(), replay_text(prop, "oracle: several securities' capital events on one date", &what, &l, &[format!("case {name}")]));
                    }
                }
                Err(e) if e.kind == "capReturnExceedsCost" => {}
                Err(_) => {}
            }
        }
        match &base {
            Ok(_) => ctx.ev.count("accepted"),
            Err(e) => {
                ctx.ev.count(&format!("rejected:{}", e.kind));
                if e.kind == "panic" { ctx.ev.violation("crash", e.detail.clone(), replay_text(prop, "crash", &e.detail, &l, &[])); }
                if e.kind == "capReturnExceedsCost" {
                    // the real message must cite s122
                    let txs = ledger::to_gbps(&l);
                    if let Err(err) = cgt_core::matcher::Matcher::new().process(txs) {
                        let msg = err.to_string();
                        if !(msg.contains("S122") || msg.contains("s122")) {
                            ctx.ev.violation("oracle", format!("over-large capital return refused without citing TCGA92 s122: {msg}"), replay_text(prop, "oracle", "refusal must cite s122", &l, &[]));
                        }
                    }
                }
            }
        }
        if has_cost_events(&l) && base.is_ok() { ctx.ev.nontrivial.insert(ledger::dsl(&l)); }
        // (a) dividends are inert
        if has_kind(&l, Kind::Dividend) {
            let v: Ledger = l.iter().filter(|t| t.kind != Kind::Dividend).cloned().collect();
            ctx.ev.count("dividend-removal");
            if let Some(what) = same_match(&run_impl::impl_match(&v), &base, multi_sell_day(&l)) {
                ctx.ev.violation("oracle", format!("removing the DIVIDEND lines changes disposals or holdings: {what}"), replay_text(prop, "oracle (a)", &what, &l, &[format!("case {name}")]));
            }
        }
        // known-finding class D6, decided by the Lean model of the pre-pass on the base ledger: inside
        // it a lot already carries negative cost, so "cancel" and "exact move" can be refused later
        let in_d6 = match ctx.model.as_mut() { Some(m) if has_kind(&l, Kind::CapReturn) => m.ask(&format!("class negativeLot {}", ledger::wire(&l))) == "yes", _ => false };
        const D3: &str = "D3 seen through the cost pre-pass: after a SPLIT/UNSPLIT whose ratio does not divide exactly the lots' share counts carry 28-digit residue, so a security that was sold out can keep 10^-27 of a share, to which a later accumulation or capital return is attached in full";
        const D6: &str = "D6: a capital return apportioned by shares drives a cheap lot's allowable cost negative (refusal test uses the sum of the held lots' costs)";
        if let Ok(bout) = &base {
            let tk = l[r.below(l.len() as u64) as usize].ticker.clone();
            let date = l[r.below(l.len() as u64) as usize].date + Duration::days(*r.pick(&[0i64, 0, 1, 7, 40]));
            let v = Decimal::new(r.range(1, 20_000), 2);
            // (b) equal events cancel, in both line orders — on dates where shares are held (with
            // nothing held the accumulation has nothing to attach to and the capital return is an
            // input error, refused as such)
            let held_unscaled = position_before(&l, &tk, date).is_pos();
            if !held_unscaled { ctx.ev.count("cancel-skipped-nothing-held"); }
            for order in 0..(if held_unscaled { 2 } else { 0 }) {
                let mut var = l.clone();
                let acc = GTx::new(date, &tk, Kind::Accumulation, Decimal::ONE, v, Decimal::ZERO);
                let fee = if r.chance(1, 2) { Decimal::new(r.range(0, 50), 2) } else { Decimal::ZERO };
                let cap = GTx::new(date, &tk, Kind::CapReturn, Decimal::ONE, v + fee, fee);
                if order == 0 { var.push(acc); var.push(cap); } else { var.push(cap); var.push(acc); }
                ctx.ev.count("cancel-pairs");
                if let Some(what) = same_match(&run_impl::impl_match(&var), &base, multi_sell_day(&l)) {
                    if in_d6 { ctx.ev.known("negativeLot", D6); break; }
                    if inexact_ratio_class(&l, &tk) { ctx.ev.known("inexactRatio", D3); break; }
                    ctx.ev.violation("oracle", format!("an accumulation and a capital return of equal net amount on {date} do not cancel: {what}"), replay_text(prop, "oracle (b)", &what, &var, &[format!("case {name}")]));
                    break;
                }
            }
            // (c) a single event moves cost by exactly its amount when shares are held as its day begins
            // (position in the units then current: splits rescale it)
            {
                let pos = position_before(&l, &tk, date);
                let mut var = l.clone();
                var.push(GTx::new(date, &tk, Kind::Accumulation, Decimal::ONE, v, Decimal::ZERO));
                if let Ok(vout) = run_impl::impl_match(&var) {
                    ctx.ev.count("single-accumulation");
                    let delta = total_cost(&vout, &tk).sub(&total_cost(bout, &tk));
                    let want = if pos.is_pos() { Q::from_dec(v) } else { Q::zero() };
                    if !delta.close(&want, 12) && in_d6 { ctx.ev.known("negativeLot", D6); }
                    else if !delta.close(&want, 12) && inexact_ratio_class(&l, &tk) { ctx.ev.known("inexactRatio", D3); }
                    else if !delta.close(&want, 12) {
                        ctx.ev.violation("oracle", format!("an accumulation of {v} on {date} with {} {tk} shares held changes that security's allowable expenditure by {}", pos.approx(), delta.approx()), replay_text(prop, "oracle (c)", "accumulation must move cost by exactly its amount", &var, &[format!("case {name}")]));
                    }
                    for t in bout.iter().filter(|t| t.ticker != tk) {
                        if !total_cost(&vout, &t.ticker).close(&total_cost(bout, &t.ticker), 15) {
                            ctx.ev.violation("oracle", format!("an accumulation on {tk} changes the allowable expenditure of {}", t.ticker), replay_text(prop, "oracle (c)", "cost moved to another security", &var, &[]));
                        }
                    }
                } else {
                    ctx.ev.violation("oracle", format!("adding an accumulation of {v} on {date} makes an accepted ledger rejected"), replay_text(prop, "oracle (c)", "accumulation refused", &var, &[]));
                }
                let mut var = l.clone();
                let fee = Decimal::new(r.range(0, 30), 2).min(v);
                var.push(GTx::new(date, &tk, Kind::CapReturn, Decimal::ONE, v, fee));
                match run_impl::impl_match(&var) {
                    Ok(vout) => {
                        ctx.ev.count("single-capreturn-accepted");
                        let delta = total_cost(&vout, &tk).sub(&total_cost(bout, &tk));
                        let want = if pos.is_pos() { Q::from_dec(v - fee).neg() } else { Q::zero() };
                        if !delta.close(&want, 12) && in_d6 { ctx.ev.known("negativeLot", D6); }
                        else if !delta.close(&want, 12) && inexact_ratio_class(&l, &tk) { ctx.ev.known("inexactRatio", D3); }
                        else if !delta.close(&want, 12) {
                            ctx.ev.violation("oracle", format!("a capital return of net {} on {date} with {} {tk} shares held changes that security's allowable expenditure by {}", v - fee, pos.approx(), delta.approx()), replay_text(prop, "oracle (c)", "capital return must move cost by exactly its net amount", &var, &[format!("case {name}")]));
                        }
                    }
                    Err(e) => { ctx.ev.count(&format!("single-capreturn-{}", e.kind)); }
                }
            }
            // (d) nothing negative
            let neg = bout.iter().find_map(|t| {
                if let Some(x) = t.legs.iter().find(|x| x.cost.is_neg() && !x.cost.close(&Q::zero(), 18)) { return Some(format!("{} {}: {} leg with allowable cost {}", t.ticker, x.sell_date, x.rule, x.cost.approx())); }
                if let Some(p) = &t.pool { if p.1.is_neg() && !p.1.close(&Q::zero(), 18) { return Some(format!("{}: closing holding with allowable cost {}", t.ticker, p.1.approx())); } }
                None
            });
            if let Some(what) = neg {
                if in_d6 {
                    ctx.ev.known("negativeLot", "D6: a capital return apportioned by shares drives a cheap lot's allowable cost negative (refusal test uses the sum of the held lots' costs)");
                } else {
                    ctx.ev.violation("oracle", format!("negative allowable cost outside the known class: {what}"), replay_text(prop, "oracle (d)", &what, &l, &[format!("case {name}")]));
                }
            }
        }
        // correspondence
        if let Some(m) = ctx.model.as_mut() {
            match run_impl::model_match(m, &l) {
                Err(e) => ctx.ev.violation("correspondence", format!("driver: {e}"), replay_text(prop, "correspondence", &e, &l, &[])),
                Ok(mo) => {
                    ctx.ev.traces_validated += 1;
                    let mut p = Proj::full();
                    p.legs_exact = false;
                    p.qty = false;
                    p.err_detail = false;
                    if let Some(what) = rep::diff_match(&base, &mo, &p) {
                        ctx.ev.violation("correspondence", what.clone(), replay_text(prop, "correspondence (accept/refuse and costs: implementation vs Lean model)", &what, &l, &[format!("case {name}")]));
                    }
                }
            }
        }
        if ctx.ev.samples.len() < 3 && base.is_ok() && has_cost_events(&l) {
            ctx.ev.sample(json!({"case": name, "ledger": ledger::dsl(&l).lines().collect::<Vec<_>>()}));
        }
    }
    // capital returns, accumulations and dividends in foreign currencies, each amount in a currency of its own
    // (TOTAL in dollars, FEES or TAX in euros or pounds): the report is that of the same ledger with every amount
    // converted beforehand at its own currency's rate for the month
    if let Ok(fx) = cgt_money::load_default_cache() {
        use cgt_money::Currency;
        let cfg2 = run_impl::config_from(&run_impl::embedded_exemptions());
        let mut rr = Rng::new(ctx.seed ^ 0xC11F);
        for i in 0..ctx.n(40, 1500) {
            let y = 2017 + rr.below(7) as i32;
            let mo = 2 + rr.below(9) as u32;
            let cur = |r: &mut Rng| *r.pick(&["USD", "EUR", "GBP", "CHF"]);
            let (c1, c2) = (cur(&mut rr), cur(&mut rr));
            let total = Decimal::new(rr.range(1_000, 40_000), 2);
            let fee = Decimal::new(rr.range(100, 3_000), 2);
            let kind = ["CAPRETURN", "ACCUMULATION", "DIVIDEND"][i as usize % 3];
            let clause = if kind == "CAPRETURN" { "FEES" } else { "TAX" };
            let event = |t: String, f: String| if kind == "DIVIDEND" { format!("{y}-{mo:02}-15 DIVIDEND ACME TOTAL {t} {clause} {f}") } else { format!("{y}-{mo:02}-15 {kind} ACME 100 TOTAL {t} {clause} {f}") };
            let conv = |a: Decimal, c: &str| -> Option<Decimal> { if c == "GBP" { Some(a) } else { fx.get(Currency::from_code(c)?, y, mo).map(|e| a / e.rate_per_gbp) } };
            let (Some(tg), Some(fg)) = (conv(total, c1), conv(fee, c2)) else { continue };
            let head = format!("{y}-01-05 BUY ACME 100 @ 10\n");
            let tail = format!("\n{y}-{:02}-20 SELL ACME 40 @ 12\n", mo + 1);
            let foreign = format!("{head}{}{tail}", event(format!("{total} {c1}"), format!("{fee} {c2}")));
            let twin = format!("{head}{}{tail}", event(format!("{tg}"), format!("{fg}")));
            let run = |text: &str| cgt_core::parser::parse_file(text).map_err(|e| e.to_string()).and_then(|t| std::panic::catch_unwind(std::panic::AssertUnwindSafe(|| cgt_core::calculator::calculate(&t, None, Some(&fx), &cfg2))).map_err(|_| "panic".to_string())?.map_err(|e| e.to_string()));
            ctx.ev.evaluations += 1;
            ctx.ev.count("mixed-currency-events");
            match (run(&foreign), run(&twin)) {
                (Ok(a), Ok(b)) => {
                    let (ja, jb) = (serde_json::to_value(&a).unwrap_or_default(), serde_json::to_value(&b).unwrap_or_default());
                    if ja["tax_years"] != jb["tax_years"] || ja["holdings"] != jb["holdings"] {
                        ctx.ev.violation("oracle", format!("a {kind} with TOTAL in {c1} and {clause} in {c2} is not reported as the same event with both amounts converted at their own currencies' rates"), format!("# property C11\n# oracle: foreign-currency event vs the same ledger converted beforehand (bundled rates)\n{foreign}# converted:\n{twin}"));
                    }
                    if c1 != c2 { ctx.ev.nontrivial.insert(foreign.clone()); }
                }
                (Err(a), Err(_)) => { let _ = a; ctx.ev.count("mixed-currency-events:both-refused"); }
                (a, b) => ctx.ev.violation("oracle", format!("a {kind} with TOTAL in {c1} and {clause} in {c2}: accepted {} but its converted twin {}", a.is_ok(), b.is_ok()), format!("# property C11\n{foreign}# converted:\n{twin}")),
            }
        }
    }
    // the D6 witness is replayed on the real code every run
    if let Ok(w) = ledger::from_dsl("2024-01-01 BUY A 10 @ 100\n2024-02-01 SELL A 1 @ 100\n2024-02-05 BUY A 1 @ 1\n2024-03-01 CAPRETURN A 10 TOTAL 550\n") {
        if let Ok(out) = run_impl::impl_match(&w) {
            if out.iter().any(|t| t.legs.iter().any(|x| x.cost.is_neg())) { ctx.ev.known("negativeLot", "D6: a capital return apportioned by shares drives a cheap lot's allowable cost negative (refusal test uses the sum of the held lots' costs)"); }
        }
    }
}
