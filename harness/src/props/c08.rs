//! C08 — FX conversion and the rates loader.
use super::*;
use crate::q::Q;
use crate::rng::Rng;
use crate::run_impl;
use cgt_core::{Currency, CurrencyAmount, Operation, Transaction};
use cgt_money::{FxCache, RateFile};
use chrono::{Datelike, Duration, NaiveDate};
use rust_decimal::Decimal;
use serde_json::json;
use std::time::{Duration as StdDuration, UNIX_EPOCH};

const CURS: &[&str] = &["GBP", "USD", "EUR", "JPY", "CHF", "AUD", "XTS"];
const MONTHS: &[&str] = &["Jan", "Feb", "Mar", "Apr", "May", "Jun", "Jul", "Aug", "Sep", "Oct", "Nov", "Dec"];

fn cur(code: &str) -> Currency { Currency::from_code(code).expect("iso code") }
fn amt(x: Decimal, code: &str) -> CurrencyAmount { CurrencyAmount::new(x, cur(code)) }

#[derive(Clone)]
struct FTx { date: NaiveDate, ticker: String, kind: Kind, a: Decimal, b: (Decimal, &'static str), c: (Decimal, &'static str) }

impl FTx {
    fn to_tx(&self) -> Transaction {
        let operation = match self.kind {
            Kind::Buy => Operation::Buy { amount: self.a, price: amt(self.b.0, self.b.1), fees: amt(self.c.0, self.c.1) },
            Kind::Sell => Operation::Sell { amount: self.a, price: amt(self.b.0, self.b.1), fees: amt(self.c.0, self.c.1) },
            Kind::Dividend => Operation::Dividend { total_value: amt(self.b.0, self.b.1), tax_paid: amt(self.c.0, self.c.1) },
            Kind::Accumulation => Operation::Accumulation { amount: self.a, total_value: amt(self.b.0, self.b.1), tax_paid: amt(self.c.0, self.c.1) },
            Kind::CapReturn => Operation::CapReturn { amount: self.a, total_value: amt(self.b.0, self.b.1), fees: amt(self.c.0, self.c.1) },
            Kind::Split => Operation::Split { ratio: self.a },
            Kind::Unsplit => Operation::Unsplit { ratio: self.a },
        };
        Transaction { date: self.date, ticker: self.ticker.clone(), operation }
    }
    fn wire(&self) -> String {
        let d = format!("{}-{}-{}", self.date.year(), self.date.month(), self.date.day());
        let q = |x: Decimal| Q::from_dec(x).wire();
        match self.kind {
            Kind::Buy | Kind::Sell | Kind::Accumulation | Kind::CapReturn => format!("{d},{},{},{},{}:{},{}:{}", self.ticker, code_of(self.kind), q(self.a), q(self.b.0), self.b.1, q(self.c.0), self.c.1),
            Kind::Dividend => format!("{d},{},D,{}:{},{}:{},0", self.ticker, q(self.b.0), self.b.1, q(self.c.0), self.c.1),
            Kind::Split | Kind::Unsplit => format!("{d},{},{},{},0,0", self.ticker, code_of(self.kind), q(self.a)),
        }
    }
}
fn code_of(k: Kind) -> &'static str { match k { Kind::Buy => "B", Kind::Sell => "S", Kind::Dividend => "D", Kind::Accumulation => "A", Kind::CapReturn => "C", Kind::Split => "X", Kind::Unsplit => "U" } }

fn gen_fledger(r: &mut Rng, last: NaiveDate) -> Vec<FTx> {
    let n = 2 + r.below(8) as usize;
    let mut out = Vec::new();
    let base = match r.below(8) {
        0 => NaiveDate::from_ymd_opt(2015, 1, 1).expect("d"),
        1 => last - Duration::days(40),
        2 => last + Duration::days(10),
        // the days around New Year (where the calendar year, the ISO-week year and the tax year all differ)
        3 => NaiveDate::from_ymd_opt(2015 + r.below(10) as i32, 12, 28).expect("d") + Duration::days(r.range(0, 7)),
        // the last and first days of a month
        4 => { let y = 2015 + r.below(10) as i32; let m = 1 + r.below(12) as u32; NaiveDate::from_ymd_opt(y, m, 1).expect("d") - Duration::days(r.range(0, 2)) }
        _ => NaiveDate::from_ymd_opt(2015, 1, 1).expect("d") + Duration::days(r.range(0, 3600)),
    };
    let mut date = base;
    let mut pos = Decimal::ZERO;
    for _ in 0..n {
        date = date + Duration::days(*r.pick(&[0i64, 0, 1, 1, 2, 5, 20, 31, 45, 365, 366, 730]));   // incl. the same month of another year
        // now and then any code the currency type knows (most have no bundled rate: the run must fail naming it)
        let pick_cur = |r: &mut Rng| -> &'static str { if r.chance(1, 40) { "XTS" } else if r.chance(1, 25) { r.pick(crate::dslgen::all_codes()).code() } else { *r.pick(&CURS[..6]) } };
        let k = match r.below(10) { 0..=3 => Kind::Buy, 4..=6 => Kind::Sell, 7 => Kind::Dividend, 8 => Kind::Accumulation, _ => Kind::CapReturn };
        let q = Decimal::from(r.range(1, 100));
        let k = if k == Kind::Sell && pos < q { Kind::Buy } else { k };
        match k { Kind::Buy => pos += q, Kind::Sell => pos -= q, _ => {} }
        let b = (Decimal::new(r.range(1, 500_000), 2), pick_cur(r));
        let c = if r.chance(1, 3) { (Decimal::ZERO, if r.chance(1, 3) { pick_cur(r) } else { "GBP" }) } else { (Decimal::new(r.range(1, 3000), 2), pick_cur(r)) };
        let (b, c) = if k == Kind::CapReturn { ((Decimal::new(r.range(1, 2000), 2), b.1), (Decimal::ZERO, "GBP")) } else { (b, c) };
        out.push(FTx { date, ticker: "AAA".into(), kind: k, a: q, b, c });
    }
    out
}

pub(crate) fn xml(period: (i32, u32), rows: &[(&str, Decimal)]) -> String {
    let dim = NaiveDate::from_ymd_opt(if period.1 == 12 { period.0 + 1 } else { period.0 }, if period.1 == 12 { 1 } else { period.1 + 1 }, 1).expect("d").pred_opt().expect("d").day();
    let m = MONTHS[(period.1 - 1) as usize];
    let mut s = format!("<exchangeRateMonthList Period=\"01/{m}/{} to {dim}/{m}/{}\">\n", period.0, period.0);
    for (code, rate) in rows {
        s.push_str(&format!("  <exchangeRate><countryName>X</countryName><countryCode>XX</countryCode><currencyName>Y</currencyName><currencyCode>{code}</currencyCode><rateNew>{rate}</rateNew></exchangeRate>\n"));
    }
    s.push_str("</exchangeRateMonthList>\n");
    s
}

fn cache_slice(cache: &FxCache, keys: &[(String, i32, u32)]) -> String {
    let mut v = Vec::new();
    for (c, y, m) in keys {
        if let Some(cu) = Currency::from_code(c) { if let Some(e) = cache.get(cu, *y, *m) { v.push(format!("{c}:{y}:{m}={}", Q::from_dec(e.rate_per_gbp).wire())); } }
    }
    if v.is_empty() { "-".into() } else { v.join(";") }
}

pub fn run(ctx: &mut Ctx) {
    let prop = "C08";
    ctx.ev.rule = "part 1 (conversion): generated single-security ledgers with price and fees/tax in independently chosen currencies (GBP, USD, EUR, JPY, CHF, AUD, occasionally XTS, which has no rates, or any other ISO code the currency type knows, with or without bundled rates), months from 2015-01 to the last bundled month and beyond (a quarter of the ledgers start in the days around New Year or on the last/first day of a month), against the real bundled cache: each converted field must equal amount ÷ rate(own currency, own year, own month) (GBP unchanged); the report of the foreign ledger must equal the report of the pre-converted GBP ledger; a missing rate that is needed (non-zero amount) must fail naming the first such field's currency and the transaction's month; a zero amount converts to zero whatever its label; the Lean model must agree on every converted value and error. part 4 (CLI, --fx-folder): a file overriding a bundled month under either accepted file name (YYYY-MM.xml, monthly_xml_YYYY-MM.xml) must be used by `cgt-tool report`, and a file whose Period contradicts its name must be refused, as by the library loader. part 3 (CLI): ledgers mixing sterling and foreign amounts per line (incl. all-sterling prices with one foreign fee) through `cgt-tool report --format json` against the library with the bundled table. part 2 (loader): generated rate folders (real XML text, real file names, modification times) loaded with the real loader: overridden keys take the newest file's rate, all other keys keep the bundled rate, files whose period disagrees with their name, with month 13 names, or with a zero/negative rate are rejected; compared with the model's loadCache. Non-trivial = ledgers with two different non-GBP currencies on one line, and folders with ≥ 2 files; distinct by case text.".into();
    let bundled = cgt_money::load_default_cache().expect("bundled cache");
    // last bundled month for USD
    let mut last = NaiveDate::from_ymd_opt(2015, 1, 1).expect("d");
    for y in 2015..2040 { for m in 1..=12u32 { if bundled.get(cur("USD"), y, m).is_some() { last = NaiveDate::from_ymd_opt(y, m, 28).expect("d"); } } }
    ctx.ev.notes.push(format!("last bundled USD month: {}-{:02}", last.year(), last.month()));
    let cfg = cgt_core::Config { exemptions: run_impl_wide() };
    let mut r = Rng::new(ctx.seed ^ 0xC08);
    let n1 = ctx.n(400, 20_000);
    for i in 0..n1 {
        ctx.ev.evaluations += 1;
        let fl = gen_fledger(&mut r, last);
        let txs: Vec<Transaction> = fl.iter().map(|t| t.to_tx()).collect();
        let dsl_text = format!("{:?}", fl.iter().map(|t| t.wire()).collect::<Vec<_>>());
        let conv = cgt_core::transactions_to_gbp(&txs, Some(&bundled));
        if fl.iter().any(|t| t.b.1 != "GBP" && t.c.1 != "GBP" && t.b.1 != t.c.1 && !t.c.0.is_zero()) { ctx.ev.nontrivial.insert(dsl_text.clone()); }
        // independent expectation, field by field
        let mut expect_err: Option<(String, i32, u32)> = None;
        let mut expect: Vec<(Decimal, Decimal)> = Vec::new();
        'outer: for t in &fl {
            let mut pair = [Decimal::ZERO; 2];
            for (k, f) in [&t.b, &t.c].iter().enumerate() {
                if matches!(t.kind, Kind::Split | Kind::Unsplit) { continue; }
                if f.1 == "GBP" { pair[k] = f.0; continue; }
                if f.0.is_zero() { pair[k] = Decimal::ZERO; continue; } // a zero amount needs no rate
                match bundled.get(cur(f.1), t.date.year(), t.date.month()) {
                    Some(e) => pair[k] = f.0 / e.rate_per_gbp,
                    None => { expect_err = Some((f.1.to_string(), t.date.year(), t.date.month())); break 'outer; }
                }
            }
            expect.push((pair[0], pair[1]));
        }
        match (&conv, &expect_err) {
            (Err(e), Some((c, y, m))) => {
                ctx.ev.count("missing-rate");
                let ok = matches!(e, cgt_core::CgtError::MissingFxRate { currency, year, month } if currency == c && year == y && month == m);
                if !ok { ctx.ev.violation("oracle", format!("missing rate for {c} {y}-{m:02} reported as: {e}"), format!("# property C08\n# oracle: error must name the currency and month\n{dsl_text}\n")); }
            }
            (Ok(g), None) => {
                ctx.ev.count("converted");
                for ((t, gt), (eb, ec)) in fl.iter().zip(g).zip(&expect) {
                    let (gb, gc) = match &gt.operation {
                        Operation::Buy { price, fees, .. } | Operation::Sell { price, fees, .. } => (*price, *fees),
                        Operation::Dividend { total_value, tax_paid } | Operation::Accumulation { total_value, tax_paid, .. } => (*total_value, *tax_paid),
                        Operation::CapReturn { total_value, fees, .. } => (*total_value, *fees),
                        _ => (Decimal::ZERO, Decimal::ZERO),
                    };
                    if matches!(t.kind, Kind::Split | Kind::Unsplit) { continue; }
                    if gb != *eb || gc != *ec {
                        ctx.ev.violation("oracle", format!("{} {}: converted to ({gb}, {gc}) but amount ÷ rate of its own currency and month is ({eb}, {ec})", t.date, code_of(t.kind)), format!("# property C08\n# oracle: conversion\n{dsl_text}\n"));
                    }
                }
                // twin: report(foreign) == report(pre-converted GBP)
                let pre: Vec<Transaction> = g.iter().map(|gt| {
                    let gbp = |x: Decimal| CurrencyAmount::new(x, Currency::GBP);
                    let operation = match &gt.operation {
                        Operation::Buy { amount, price, fees } => Operation::Buy { amount: *amount, price: gbp(*price), fees: gbp(*fees) },
                        Operation::Sell { amount, price, fees } => Operation::Sell { amount: *amount, price: gbp(*price), fees: gbp(*fees) },
                        Operation::Dividend { total_value, tax_paid } => Operation::Dividend { total_value: gbp(*total_value), tax_paid: gbp(*tax_paid) },
                        Operation::Accumulation { amount, total_value, tax_paid } => Operation::Accumulation { amount: *amount, total_value: gbp(*total_value), tax_paid: gbp(*tax_paid) },
                        Operation::CapReturn { amount, total_value, fees } => Operation::CapReturn { amount: *amount, total_value: gbp(*total_value), fees: gbp(*fees) },
                        Operation::Split { ratio } => Operation::Split { ratio: *ratio },
                        Operation::Unsplit { ratio } => Operation::Unsplit { ratio: *ratio },
                    };
                    Transaction { date: gt.date, ticker: gt.ticker.clone(), operation }
                }).collect();
                let a = cgt_core::calculator::calculate(&txs, None, Some(&bundled), &cfg);
                let b = cgt_core::calculator::calculate(&pre, None, None, &cfg);
                match (a, b) {
                    (Ok(mut x), Ok(mut y)) => { x.transactions.clear(); y.transactions.clear(); if x != y { ctx.ev.violation("oracle", "the report of a foreign-currency ledger differs from the report of the same ledger pre-converted to GBP".into(), format!("# property C08\n# oracle: twin\n{dsl_text}\n")); } }
                    (Err(_), Err(_)) => {}
                    (x, y) => ctx.ev.violation("oracle", format!("foreign ledger accepted: {}, pre-converted twin accepted: {}", x.is_ok(), y.is_ok()), format!("# property C08\n# oracle: twin\n{dsl_text}\n")),
                }
            }
            (Ok(_), Some((c, y, m))) => ctx.ev.violation("oracle", format!("the rate for {c} {y}-{m:02} is absent but the ledger converts"), format!("# property C08\n# oracle: an amount must never be treated as GBP or converted at another month's rate\n{dsl_text}\n")),
            (Err(e), None) => ctx.ev.violation("oracle", format!("all rates present but conversion fails: {e}"), format!("# property C08\n{dsl_text}\n")),
        }
        // correspondence
        if let Some(m) = ctx.model.as_mut() {
            let mut keys: Vec<(String, i32, u32)> = Vec::new();
            for t in &fl { for f in [&t.b, &t.c] { if f.1 != "GBP" { for dm in [-1i32, 0, 1] { let mm = t.date.month() as i32 + dm; let (y, mo) = if mm < 1 { (t.date.year() - 1, 12) } else if mm > 12 { (t.date.year() + 1, 1) } else { (t.date.year(), mm as u32) }; keys.push((f.1.to_string(), y, mo)); } } } }
            keys.sort(); keys.dedup();
            let resp = m.ask(&format!("fx {} {}", cache_slice(&bundled, &keys), fl.iter().map(|t| t.wire()).collect::<Vec<_>>().join(" ")));
            ctx.ev.traces_validated += 1;
            let imp = match &conv {
                Err(cgt_core::CgtError::MissingFxRate { currency, year, month }) => format!("err missingFxRate {currency} {year} {month}"),
                Err(e) => format!("err other {e}"),
                Ok(g) => {
                    let mut s = String::from("ok");
                    for gt in g { s.push_str(" T "); s.push_str(&wire_gbp(gt)); }
                    s
                }
            };
            if !same_tokens(&imp, &resp) {
                ctx.ev.violation("correspondence", format!("conversion differs: impl '{}' vs model '{}'", &imp[..imp.len().min(200)], &resp[..resp.len().min(200)]), format!("# property C08\n# correspondence: fx\n{dsl_text}\n"));
            }
        }
        if ctx.ev.samples.len() < 3 && i > 3 && conv.is_ok() { ctx.ev.sample(json!({"ledger": fl.iter().map(|t| t.wire()).collect::<Vec<_>>() })); }
    }
    loader_part(ctx, &bundled, &mut r);
    cli_part(ctx, &bundled, &mut r);
    { let mut rf = Rng::new(ctx.seed ^ 0xC08F); cli_folder_part(ctx, &mut rf); }
}

fn run_impl_wide() -> std::collections::HashMap<u16, Decimal> { crate::run_impl::wide_exemptions().into_iter().collect() }

fn wire_gbp(t: &cgt_core::GbpTransaction) -> String {
    let d = t.date.format("%Y-%m-%d");
    let q = |x: Decimal| format!("#{}", Q::from_dec(x).wire());
    let z = "#0".to_string();
    let (k, a, b, c) = match &t.operation {
        Operation::Buy { amount, price, fees } => ("B", q(*amount), q(*price), q(*fees)),
        Operation::Sell { amount, price, fees } => ("S", q(*amount), q(*price), q(*fees)),
        Operation::Dividend { total_value, tax_paid } => ("D", q(*total_value), q(*tax_paid), z),
        Operation::Accumulation { amount, total_value, tax_paid } => ("A", q(*amount), q(*total_value), q(*tax_paid)),
        Operation::CapReturn { amount, total_value, fees } => ("C", q(*amount), q(*total_value), q(*fees)),
        Operation::Split { ratio } => ("X", q(*ratio), z.clone(), z),
        Operation::Unsplit { ratio } => ("U", q(*ratio), z.clone(), z),
    };
    format!("{d} {} {k} {a} {b} {c}", t.ticker)
}

/// token-wise comparison: `#n/d` tokens numerically (1e-15), others exactly
fn same_tokens(a: &str, b: &str) -> bool {
    let x: Vec<&str> = a.split(' ').collect();
    let y: Vec<&str> = b.split(' ').collect();
    if x.len() != y.len() { return false; }
    x.iter().zip(&y).all(|(p, q)| if p.starts_with('#') && q.starts_with('#') { match (Q::parse(p), Q::parse(q)) { (Some(u), Some(v)) => u.close(&v, 15), _ => false } } else { p == q })
}

/// the real binary: ledgers whose prices/totals and fees/taxes carry different currencies (among them
/// "everything in sterling except one fee"), `cgt-tool report --format json` against the library run
/// with the bundled table
fn cli_part(ctx: &mut Ctx, bundled: &FxCache, r: &mut Rng) {
    use crate::cli;
    if !cli::available() { ctx.ev.notes.push("cgt-tool binary not built: CLI conversion not exercised".into()); return; }
    // the CLI uses the embedded exemption table (no override file in the scratch directory)
    let cfg = run_impl::config_from(&run_impl::embedded_exemptions());
    for k in 0..ctx.n(8, 120) {
        ctx.ev.evaluations += 1;
        ctx.ev.count("cli-foreign-ledgers");
        let y = 2016 + r.below(8) as i32;
        let m1 = 1 + r.below(6) as u32;
        let d1 = NaiveDate::from_ymd_opt(y, m1, 1 + r.below(27) as u32).expect("d");
        let d2 = NaiveDate::from_ymd_opt(y, m1 + 3, 1 + r.below(27) as u32).expect("d");
        let fc = *r.pick(&["USD", "EUR", "CHF"]);
        // shape k % 3: 0 = sterling prices, one foreign fee; 1 = foreign price, sterling fee; 2 = both foreign, different
        let (pc1, fc1, pc2, fc2) = match k % 3 { 0 => ("GBP", "GBP", "GBP", fc), 1 => (fc, "GBP", fc, "GBP"), _ => (fc, "GBP", "GBP", fc) };
        let fl = vec![
            FTx { date: d1, ticker: "AAA".into(), kind: Kind::Buy, a: Decimal::from(100), b: (Decimal::new(r.range(100, 5000), 2), pc1), c: (Decimal::new(r.range(1, 900), 2), fc1) },
            FTx { date: d2, ticker: "AAA".into(), kind: Kind::Sell, a: Decimal::from(40), b: (Decimal::new(r.range(100, 5000), 2), pc2), c: (Decimal::new(r.range(1, 900), 2), fc2) },
            FTx { date: d2, ticker: "AAA".into(), kind: Kind::Dividend, a: Decimal::ZERO, b: (Decimal::new(r.range(100, 5000), 2), "GBP"), c: (Decimal::new(r.range(1, 300), 2), fc) },
        ];
        let txs: Vec<Transaction> = fl.iter().map(|t| t.to_tx()).collect();
        let text = cgt_core::dsl::transactions_to_dsl(&txs) + "\n";
        let lib = std::panic::catch_unwind(std::panic::AssertUnwindSafe(|| cgt_core::calculator::calculate(&txs, None, Some(bundled), &cfg)));
        let Ok(lib) = lib else { continue };
        let sc = cli::Scratch::new();
        sc.write("in.cgt", &text);
        let o = cli::run(&sc, &["report", "in.cgt", "--format", "json"]);
        let case = format!("# property C08\n# CLI: cgt-tool report in.cgt --format json (bundled rates)\n{text}");
        match (lib, o.code == Some(0)) {
            (Ok(rep), true) => {
                let a = serde_json::to_value(&rep).unwrap_or_default();
                let b: serde_json::Value = serde_json::from_slice(&o.stdout).unwrap_or_default();
                if a["tax_years"] != b["tax_years"] || a["holdings"] != b["holdings"] { ctx.ev.violation("oracle", "the CLI's report of a foreign-currency ledger differs from the library's with the bundled rates".into(), case); }
            }
            (Ok(_), false) => ctx.ev.violation("oracle", format!("the CLI fails on a ledger whose rates are all bundled: {}", o.stderr.lines().next().unwrap_or("")), case),
            (Err(e), true) => ctx.ev.violation("oracle", format!("the library refuses ({e}) a ledger the CLI reports"), case),
            (Err(_), false) => {}
        }
    }
}

/// `--fx-folder` through the real binary: a file overriding a bundled month, under either of the two file
/// names the loader accepts, must be used; a file whose period contradicts its name must be refused
fn cli_folder_part(ctx: &mut Ctx, r: &mut Rng) {
    use crate::cli;
    if !cli::available() { return; }
    let cfg = run_impl::config_from(&run_impl::embedded_exemptions());
    for k in 0..ctx.n(6, 60) {
        ctx.ev.evaluations += 1;
        ctx.ev.count("cli-fx-folder-cases");
        let y = 2018 + r.below(6) as i32;
        let mo = 2 + r.below(9) as u32;
        let rate = Decimal::new(r.range(15_000, 30_000), 4);
        let name = if k % 2 == 0 { format!("monthly_xml_{y}-{mo:02}.xml") } else { format!("{y}-{mo:02}.xml") };
        let mislabelled = k % 3 == 2;
        let body = xml(if mislabelled { (y, mo + 1) } else { (y, mo) }, &[("USD", rate)]);
        // the ledger's lines in any order, in one file or two (seed C08-s10: the CLI pre-filtered the folder by
        // the months of the first and the last line, so an undated-order ledger lost its override)
        let mut lines = vec![format!("{y}-01-05 BUY ACME 100 @ 10"), format!("{y}-{mo:02}-15 SELL ACME 40 @ 30 USD FEES 1.50 USD"),
                             format!("{y}-{:02}-20 DIVIDEND ACME TOTAL 12 TAX 0", if mo > 2 { mo - 1 } else { 1 })];
        if k % 4 != 0 { for i in (1..lines.len()).rev() { let j = r.below(i as u64 + 1) as usize; lines.swap(i, j); } }
        if k % 4 == 3 { lines.reverse(); lines.sort_by(|a, b| b[..10].cmp(&a[..10])); }   // newest first
        let text = lines.join("\n") + "\n";
        let sc = cli::Scratch::new();
        std::fs::create_dir_all(sc.path("fx")).ok();
        sc.write(&format!("fx/{name}"), &body);
        let two_files = k % 5 >= 3;
        let o = if two_files {
            ctx.ev.count("cli-fx-folder-two-files");
            sc.write("a.cgt", &(lines[..1].join("\n") + "\n"));
            sc.write("b.cgt", &(lines[1..].join("\n") + "\n"));
            cli::run(&sc, &["report", "a.cgt", "b.cgt", "--format", "json", "--fx-folder", "fx"])
        } else {
            sc.write("in.cgt", &text);
            cli::run(&sc, &["report", "in.cgt", "--format", "json", "--fx-folder", "fx"])
        };
        if lines.windows(2).any(|w| w[0][..10] > w[1][..10]) { ctx.ev.count("cli-fx-folder-lines-not-in-date-order"); }
        let case = format!("# property C08\n# CLI: cgt-tool report {} --format json --fx-folder fx, with fx/{name} giving USD {rate} for {}\n{text}", if two_files { "a.cgt (the first line) b.cgt (the rest)" } else { "in.cgt" }, if mislabelled { "the following month (its Period contradicts its name)" } else { "that month" });
        let lib = cgt_money::load_cache_with_overrides(vec![RateFile { name: std::path::PathBuf::from(format!("fx/{name}")), modified: None, xml: body.clone() }]);
        match lib {
            Err(_) => { if o.code == Some(0) { ctx.ev.violation("oracle", "the CLI accepts an --fx-folder file that the loader refuses (period and name disagree)".into(), case); } }
            Ok(cache) => {
                let Ok(txs) = cgt_core::parser::parse_file(&text) else { continue };
                let Ok(rep) = cgt_core::calculator::calculate(&txs, None, Some(&cache), &cfg) else { continue };
                if o.code != Some(0) { ctx.ev.violation("oracle", format!("the CLI fails with a valid --fx-folder file: {}", o.stderr.lines().next().unwrap_or("")), case); continue; }
                let a = serde_json::to_value(&rep).unwrap_or_default();
                let b: serde_json::Value = serde_json::from_slice(&o.stdout).unwrap_or_default();
                if a["tax_years"] != b["tax_years"] || a["holdings"] != b["holdings"] { ctx.ev.violation("oracle", "the CLI's report does not use the rate of the --fx-folder file (differs from the library's with that file loaded)".into(), case); }
            }
        }
    }
}

fn loader_part(ctx: &mut Ctx, bundled: &FxCache, r: &mut Rng) {
    let n2 = ctx.n(150, 4_000);
    for i in 0..n2 {
        ctx.ev.evaluations += 1;
        let nf = 1 + r.below(4) as usize;
        let mut files: Vec<RateFile> = Vec::new();
        let mut model_files: Vec<String> = Vec::new();
        let mut expect_err = false;
        let mut expected_rates: std::collections::BTreeMap<(String, i32, u32), (Decimal, u64)> = std::collections::BTreeMap::new();
        let base_y = 2020 + r.below(8) as i32;
        let mut touched: Vec<(String, i32, u32)> = Vec::new();
        for k in 0..nf {
            let y = base_y + r.below(2) as i32;
            let mo = 1 + r.below(12) as u32;
            let mtime = 1_000 + r.below(5) * 10 + k as u64; // distinct, possibly out of list order
            let mut rows: Vec<(&str, Decimal)> = Vec::new();
            // four decimals as HMRC publishes them; every seventh drawn value is read at eight decimals instead
            // (a rate is kept digit for digit, however fine)
            for c in ["USD", "EUR", "JPY", "VEF"] { if r.chance(2, 3) { let v = r.range(1, 300_000); rows.push((c, Decimal::new(v, if v % 7 == 0 { 8 } else { 4 }))); } }
            if rows.is_empty() { rows.push(("USD", Decimal::new(r.range(1, 300_000), 4))); } // an empty list is not valid XML for the loader
            if r.chance(1, 8) { rows.push(("USD", Decimal::new(r.range(1, 300_000), 4))); } // duplicate row: last wins
            let fault = r.below(14);
            let (name_y, name_m) = match fault { 0 => (y, if mo == 12 { 1 } else { mo + 1 }), 1 => (y + 1, mo), _ => (y, mo) };
            let name = match fault { 2 => format!("{name_y}-13.xml"), 3 => "rates.xml".to_string(), 4 => format!("monthly_xml_{name_y}-{name_m:02}.xml"), _ => format!("{name_y}-{name_m:02}.xml") };
            if fault == 5 && !rows.is_empty() { rows[0].1 = Decimal::ZERO; }
            if fault == 6 && !rows.is_empty() { let j = rows.len() - 1; rows[j].1 = Decimal::new(-5, 1); }
            let bad = matches!(fault, 0 | 1 | 2 | 3) || ((fault == 5 || fault == 6) && rows.iter().any(|x| x.1 <= Decimal::ZERO && x.0 != "VEF"));
            // a non-positive rate on an unknown currency (VEF) is skipped before the check
            if bad { expect_err = true; }
            files.push(RateFile { name: std::path::PathBuf::from(format!("/rates/{name}")), modified: Some(UNIX_EPOCH + StdDuration::from_secs(mtime)), xml: xml((y, mo), &rows) });
            let e = match fault { 2 | 3 => "X".to_string(), _ => format!("{name_y}-{name_m}") };
            let rws: Vec<String> = rows.iter().filter(|x| x.0 != "VEF").map(|x| format!("{}~{}", x.0, Q::from_dec(x.1).wire())).collect();
            model_files.push(format!("E={e};P={y}-{mo};M={mtime};R={}", rws.join(",")));
            if !bad { for x in rows.iter().filter(|x| x.0 != "VEF") { let key = (x.0.to_string(), y, mo); let cur_best = expected_rates.get(&key).map(|v| v.1).unwrap_or(0); if mtime >= cur_best { expected_rates.insert(key.clone(), (x.1, mtime)); } touched.push(key); } }
            for c in ["USD", "EUR", "JPY", "CHF"] { touched.push((c.to_string(), y, mo)); touched.push((c.to_string(), y, if mo == 1 { 2 } else { mo - 1 })); }
        }
        if nf >= 2 { ctx.ev.nontrivial.insert(model_files.join(" ")); }
        touched.sort(); touched.dedup();
        let loaded = cgt_money::load_cache_with_overrides(files.clone());
        match (&loaded, expect_err) {
            (Err(_), true) => ctx.ev.count("folder-rejected"),
            (Ok(cache), false) => {
                ctx.ev.count("folder-loaded");
                for k in &touched {
                    let got = cache.get(cur(&k.0), k.1, k.2).map(|e| e.rate_per_gbp);
                    let want = expected_rates.get(k).map(|v| v.0).or_else(|| bundled.get(cur(&k.0), k.1, k.2).map(|e| e.rate_per_gbp));
                    if got != want {
                        ctx.ev.violation("oracle", format!("rate for {} {}-{:02} after loading the folder is {:?}, expected {:?} (newest file containing it, else bundled)", k.0, k.1, k.2, got, want), format!("# property C08\n# oracle: loader\n{}\n", model_files.join("\n")));
                    }
                }
            }
            (Ok(_), true) => ctx.ev.violation("oracle", "a rates folder with a mislabelled / misnamed / non-positive file is accepted".into(), format!("# property C08\n# oracle: loader must reject\n{}\n", model_files.join("\n"))),
            (Err(e), false) => ctx.ev.violation("oracle", format!("a well-formed rates folder is rejected: {e}"), format!("# property C08\n{}\n", model_files.join("\n"))),
        }
        if let Some(m) = ctx.model.as_mut() {
            let q: Vec<String> = touched.iter().map(|k| format!("{}:{}:{}", k.0, k.1, k.2)).collect();
            let resp = m.ask(&format!("fxload {} {} {}", cache_slice(bundled, &touched), q.join(";"), model_files.join(" ")));
            ctx.ev.traces_validated += 1;
            let imp = match &loaded {
                Err(_) => "err".to_string(),
                Ok(cache) => { let mut s = String::from("ok"); for k in &touched { match cache.get(cur(&k.0), k.1, k.2) { Some(e) => s.push_str(&format!(" #{}", Q::from_dec(e.rate_per_gbp).wire())), None => s.push_str(" -") } } s }
            };
            let agree = if imp == "err" { resp.starts_with("err") } else { same_tokens(&imp, &resp) };
            if !agree { ctx.ev.violation("correspondence", format!("loader differs: impl '{}' vs model '{}'", &imp[..imp.len().min(160)], &resp[..resp.len().min(160)]), format!("# property C08\n# correspondence: fxload\n{}\n", model_files.join("\n"))); }
        }
        if i == 5 { ctx.ev.sample(json!({"folder": model_files})); }
    }
}
