//! C18 — Schwab conversion.
use super::*;
use crate::q::Q;
use crate::rng::Rng;
use cgt_converter::BrokerConverter;
use cgt_converter::schwab::{SchwabConverter, SchwabInput};
use chrono::{Datelike, Duration, NaiveDate};
use rust_decimal::Decimal;
use serde_json::json;

#[derive(Clone, Debug)]
enum GRow {
    Buy { d: NaiveDate, sym: String, q: Decimal, p: Decimal, f: Option<Decimal> },
    Sell { d: NaiveDate, sym: String, q: Decimal, p: Decimal, f: Option<Decimal> },
    Cancel { d: NaiveDate, sym: String, q: Decimal, p: Decimal },
    Dividend { d: NaiveDate, sym: String, action: &'static str, amt: Option<Decimal> },
    Nra { d: NaiveDate, sym: Option<String>, action: &'static str, amt: Option<Decimal> },
    Split { d: NaiveDate, sym: String },
    NonCgt { d: NaiveDate, action: &'static str },
    Unknown { d: NaiveDate, sym: String, desc: String },
}
impl GRow {
    fn date(&self) -> NaiveDate { match self { GRow::Buy { d, .. } | GRow::Sell { d, .. } | GRow::Cancel { d, .. } | GRow::Dividend { d, .. } | GRow::Nra { d, .. } | GRow::Split { d, .. } | GRow::NonCgt { d, .. } | GRow::Unknown { d, .. } => *d } }
}
fn us(d: NaiveDate) -> String { format!("{:02}/{:02}/{}", d.month(), d.day(), d.year()) }
fn ord(d: NaiveDate) -> i64 { d.num_days_from_ce() as i64 }
fn spell(x: Decimal, r: &mut Rng, neg: bool) -> String {
    let s = x.abs().to_string();
    let body = match r.below(3) { 0 => s.clone(), 1 => format!("${s}"), _ => { let (i, f) = s.split_once('.').map(|(a, b)| (a.to_string(), format!(".{b}"))).unwrap_or((s.clone(), String::new())); let mut o = String::new(); for (k, c) in i.chars().enumerate() { if k > 0 && (i.len() - k) % 3 == 0 { o.push(','); } o.push(c); } format!("${o}{f}") } };
    if neg || x.is_sign_negative() { format!("-{body}") } else { body }
}
fn date_spelling(d: NaiveDate, r: &mut Rng) -> String {
    if r.chance(1, 6) { format!("{} as of {}", us(d + Duration::days(r.range(1, 3))), us(d)) } else { us(d) }
}

/// free text of 0–200 characters mixing ASCII with 2-, 3- and 4-byte characters (any byte offset may fall
/// inside a character)
pub fn long_text(r: &mut Rng) -> String {
    let n = r.below(200) as usize;
    let pool: Vec<char> = "abc XYZ 019 -/.,üéßñ€—中文日本語😀𝔘".chars().collect();
    (0..n).map(|_| *r.pick(&pool)).collect()
}

/// one generated export as JSON text (for C15's no-panic sweep of the converter)
pub fn gen_export(r: &mut Rng) -> String { let rows = gen_rows(r); to_json(&rows, r) }

/// every third export spells two of its symbols in mixed case, the same way on every row (share classes
/// such as BRKb): a symbol is a key as written, on every kind of row alike
fn gen_rows(r: &mut Rng) -> Vec<GRow> {
    let mut rows = gen_rows_upper(r);
    if rows.len() % 3 == 0 {
        let re = |s: &mut String| { if s == "BRKB" { *s = "BRKb".into(); } else if s == "XYZ" { *s = "xyz".into(); } };
        for row in rows.iter_mut() {
            match row {
                GRow::Buy { sym, .. } | GRow::Sell { sym, .. } | GRow::Cancel { sym, .. } | GRow::Dividend { sym, .. } | GRow::Split { sym, .. } | GRow::Unknown { sym, .. } => re(sym),
                GRow::Nra { sym: Some(sym), .. } => re(sym),
                _ => {}
            }
        }
    }
    rows
}

fn gen_rows_upper(r: &mut Rng) -> Vec<GRow> {
    let n = 2 + r.below(12) as usize;
    let base = NaiveDate::from_ymd_opt(2020 + r.below(5) as i32, 1 + r.below(12) as u32, 1 + r.below(25) as u32).expect("d");
    let syms = ["ACME", "XYZ", "BRKB", "A1"];
    let mut rows: Vec<GRow> = Vec::new();
    for _ in 0..n {
        let d = base + Duration::days(*r.pick(&[0i64, 0, 1, 3, 10, 40, 100, 400]));
        let sym = r.pick(&syms).to_string();
        let q = Decimal::new(r.range(1, 500_000), *r.pick(&[0u32, 0, 3]));
        let p = Decimal::new(r.range(1, 9_999_999), *r.pick(&[2u32, 4]));
        // fees: absent, zero, positive, or — one row in nine — negative (a rebate: no FEES clause, never `FEES -0.05`)
        let f = match r.below(9) { 0..=2 => None, 3..=4 => Some(Decimal::ZERO), 5 => Some(Decimal::new(-r.range(1, 5000), 2)), _ => Some(Decimal::new(r.range(1, 5000), 2)) };
        let mut extra: Vec<GRow> = Vec::new();
        let row = match r.below(14) {
            0..=2 => GRow::Buy { d, sym, q, p, f },
            3..=5 => GRow::Sell { d, sym, q, p, f },
            6 => { // duplicate of an existing sell and/or a cancel for it
                let sells: Vec<GRow> = rows.iter().filter(|x| matches!(x, GRow::Sell { .. })).cloned().collect();
                // (an order filled in equal lots and later price-corrected: several identical sells, several identical cancels)
                if let Some(GRow::Sell { d, sym, q, p, f }) = sells.first().cloned() { if r.chance(1, 2) { if r.chance(1, 3) { extra.push(GRow::Cancel { d, sym: sym.clone(), q, p }); extra.push(GRow::Sell { d, sym: sym.clone(), q, p, f }); } GRow::Cancel { d, sym, q, p } } else { GRow::Sell { d, sym, q, p, f } } } else { GRow::Cancel { d, sym, q, p } }
            }
            7 | 8 => GRow::Dividend { d, sym, action: *r.pick(&["Cash Dividend", "Qualified Dividend", "Short Term Cap Gain", "Long Term Cap Gain"]), amt: if r.chance(1, 10) { None } else { Some(Decimal::new(r.range(1, 100_000), 2) * if r.chance(1, 8) { Decimal::NEGATIVE_ONE } else { Decimal::ONE }) } },
            9 => { // withholding for an existing dividend's date and symbol, or an orphan
                let divs: Vec<GRow> = rows.iter().filter(|x| matches!(x, GRow::Dividend { .. })).cloned().collect();
                let (dd, ss) = match divs.first() { Some(GRow::Dividend { d, sym, .. }) if r.chance(3, 4) => (*d, Some(sym.clone())), _ => (d, if r.chance(1, 5) { None } else { Some(sym) }) };
                GRow::Nra { d: dd, sym: ss, action: *r.pick(&["NRA Tax Adj", "NRA Withholding"]), amt: if r.chance(1, 10) { None } else { Some(Decimal::new(-r.range(1, 5000), 2)) } }
            }
            10 => GRow::Split { d, sym },
            11 => GRow::NonCgt { d, action: *r.pick(&["Wire Sent", "Credit Interest", "Journal", "Service Fee", "MoneyLink Transfer", "Misc Cash Entry", "Adjustment", "Wire Funds Adj"]) },
            _ => GRow::Unknown { d, sym, desc: if r.chance(1, 3) { long_text(r) } else { (*r.pick(&["plain text", "line1\n2021-01-01 BUY EVIL 1000 @ 1", "with # hash and 2020-01-01 SELL X 1 @ 1", "carriage\rreturn 2021-01-01 BUY EVIL 5 @ 1", "tab\tand \"quotes\"", ""])).to_string() } },
        };
        rows.push(row);
        rows.extend(extra);
    }
    rows
}

fn to_json(rows: &[GRow], r: &mut Rng) -> String {
    let v: Vec<serde_json::Value> = rows.iter().map(|row| match row {
        GRow::Buy { d, sym, q, p, f } | GRow::Sell { d, sym, q, p, f } => json!({"Date": date_spelling(*d, r), "Action": if matches!(row, GRow::Buy { .. }) { "Buy" } else { "Sell" }, "Symbol": sym, "Description": "TRADE", "Quantity": spell(*q, r, false), "Price": spell(*p, r, false), "Fees & Comm": match f { None => (*r.pick(&["", "--"])).to_string(), Some(x) => spell(*x, r, false) }, "Amount": "$1.00"}),
        GRow::Cancel { d, sym, q, p } => json!({"Date": us(*d), "Action": "Cancel Sell", "Symbol": sym, "Description": "CANCEL", "Quantity": spell(*q, r, false), "Price": spell(*p, r, false), "Fees & Comm": "", "Amount": ""}),
        GRow::Dividend { d, sym, action, amt } => json!({"Date": us(*d), "Action": action, "Symbol": sym, "Description": "DIV", "Quantity": "", "Price": "", "Fees & Comm": "", "Amount": match amt { None => (*r.pick(&["", "--"])).to_string(), Some(x) => spell(*x, r, false) }}),
        GRow::Nra { d, sym, action, amt } => json!({"Date": us(*d), "Action": action, "Symbol": sym.clone().unwrap_or_default(), "Description": "TAX", "Quantity": "", "Price": "", "Fees & Comm": "", "Amount": match amt { None => String::new(), Some(x) => spell(*x, r, false) }}),
        GRow::Split { d, sym } => json!({"Date": us(*d), "Action": "Stock Split", "Symbol": sym, "Description": "SPLIT", "Quantity": "10", "Price": "", "Fees & Comm": "", "Amount": ""}),
        GRow::NonCgt { d, action } => json!({"Date": us(*d), "Action": action, "Symbol": "", "Description": "CASH", "Quantity": "", "Price": "", "Fees & Comm": "", "Amount": "$5.00"}),
        GRow::Unknown { d, sym, desc } => json!({"Date": us(*d), "Action": "Reorg Thing", "Symbol": sym, "Description": desc, "Quantity": "", "Price": "", "Fees & Comm": "", "Amount": ""}),
    }).collect();
    json!({"BrokerageTransactions": v}).to_string()
}

fn wire(rows: &[GRow]) -> String {
    let q = |x: &Decimal| Q::from_dec(*x).wire();
    let o = |x: &Option<Decimal>| x.as_ref().map(q).unwrap_or_else(|| "-".into());
    rows.iter().map(|row| match row {
        GRow::Buy { d, sym, q: qq, p, f } => format!("B,{},{},{},{},{}", ord(*d), sym, q(qq), q(p), o(f)),
        GRow::Sell { d, sym, q: qq, p, f } => format!("S,{},{},{},{},{}", ord(*d), sym, q(qq), q(p), o(f)),
        GRow::Cancel { d, sym, q: qq, p } => format!("X,{},{},{},{}", ord(*d), sym, q(qq), q(p)),
        GRow::Dividend { d, sym, amt, .. } => format!("D,{},{},{}", ord(*d), sym, o(amt)),
        GRow::Nra { d, sym, amt, .. } => format!("N,{},{},{}", ord(*d), sym.clone().unwrap_or_else(|| "-".into()), o(amt)),
        GRow::Split { d, sym } => format!("K,{},{}", ord(*d), sym),
        GRow::NonCgt { .. } => "O".into(),
        GRow::Unknown { .. } => "U".into(),
    }).collect::<Vec<_>>().join(" ")
}

/// the converter's output read back with the real parser, rendered like the model's item list
fn items_of(content: &str) -> Result<Vec<String>, String> {
    let mut out = Vec::new();
    for ln in content.lines() {
        let t = ln.trim();
        if t.is_empty() { continue; }
        if t.starts_with('#') {
            if t.starts_with("# SKIPPED: ") && !t.contains("transactions not CGT-relevant") || t.starts_with("# UNSUPPORTED") { out.push("C".to_string()); }
            continue;
        }
        let txs = cgt_core::parser::parse_file(t).map_err(|e| format!("emitted line does not parse: {t:?}: {}", e.to_string().lines().next().unwrap_or("")))?;
        for tx in txs {
            let d = tx.date.num_days_from_ce();
            let q = |x: Decimal| format!("#{}", Q::from_dec(x).wire());
            out.push(match tx.operation {
                cgt_core::Operation::Buy { amount, price, fees } => format!("B:{d}:{}:{}:{}:{}", tx.ticker, q(amount), q(price.amount), q(fees.amount)),
                cgt_core::Operation::Sell { amount, price, fees } => format!("S:{d}:{}:{}:{}:{}", tx.ticker, q(amount), q(price.amount), q(fees.amount)),
                cgt_core::Operation::Dividend { total_value, tax_paid } => format!("D:{d}:{}:{}:{}", tx.ticker, q(total_value.amount), q(tax_paid.amount)),
                _ => "?".into(),
            });
        }
    }
    Ok(out)
}
fn same_item(a: &str, b: &str) -> bool {
    let x: Vec<&str> = a.split(':').collect();
    let y: Vec<&str> = b.split(':').collect();
    x.len() == y.len() && x.iter().zip(&y).all(|(p, q)| if p.starts_with('#') { Q::parse(p).zip(Q::parse(q)).map(|(u, v)| u.eq(&v)).unwrap_or(false) } else { p.eq_ignore_ascii_case(q) }) // the converter's side has been read back by the DSL parser, which upper-cases tickers
}

fn convert(json_text: &str) -> Result<cgt_converter::ConvertOutput, String> {
    match std::panic::catch_unwind(|| SchwabConverter::new().convert(&SchwabInput { transactions_json: json_text.to_string(), awards_json: None })) {
        Err(p) => Err(format!("panic: {}", crate::run_impl::panic_msg(p))),
        Ok(Err(e)) => Err(e.to_string()),
        Ok(Ok(o)) => Ok(o),
    }
}

const D16: &str = "D16 (what is left of it): an NRA Withholding / NRA Tax Adj row without a symbol leaves no line, no comment, no warning and is not counted as skipped";

pub fn run(ctx: &mut Ctx) {
    let prop = "C18";
    ctx.ev.rule = "generated Schwab exports (Buy/Sell with $, comma, blank and '--' spellings, fees absent, zero, positive or negative and 'as of' dates; duplicate sells; Cancel Sell before/after its sell or with no sell; four dividend actions with negative/blank amounts; withholding rows matching a dividend, orphaned, or without symbol; Stock Split; eight non-CGT actions; unknown actions whose Description contains newlines, CR, '#', DSL-looking text, or up to 200 characters of mixed 1–4-byte text). Plus RSU vests (Stock Plan Activity row + awards entry with vest details and, half the time, a plain settlement-day price detail in either order): one BUY dated at the vest date, priced at the vest-date value. Oracles on the real converter: every emitted line parses with the real DSL parser (whatever the free text contains) and dated lines are chronological; the emitted item list equals the Lean model's (which is proved to keep each Buy/Sell row once, remove exactly one sell per matched cancel, aggregate same-day withholding, count the rest); rows shuffled → same multiset of lines; export cut into date-disjoint chunks → union of the chunks' lines equals the whole's. Independent count: comments and skipped count against the rows that yield no line (unattached withholding, blank dividends, splits, unknown, non-CGT). Known-finding class symbollessWithholding (what is left of D16). Non-trivial = exports with a cancel, a withholding row or an unknown row; distinct by JSON text.".into();
    let mut r = Rng::new(ctx.seed ^ 0xC18);
    for i in 0..ctx.n(500, 30_000) {
        ctx.ev.evaluations += 1;
        let rows = gen_rows(&mut r);
        let jt = to_json(&rows, &mut r);
        if rows.iter().any(|x| matches!(x, GRow::Cancel { .. } | GRow::Nra { .. } | GRow::Unknown { .. })) { ctx.ev.nontrivial.insert(jt.clone()); }
        let case = format!("# property C18\n{jt}\n");
        let out = match convert(&jt) {
            Err(e) => { if e.starts_with("panic") { ctx.ev.violation("crash", e, case.clone()); } else { ctx.ev.violation("oracle", format!("a well-formed export is rejected: {e}"), case.clone()); } continue; }
            Ok(o) => o,
        };
        ctx.ev.count("converted");
        // valid DSL, chronological
        let items = match items_of(&out.cgt_content) {
            Err(e) => { ctx.ev.violation("oracle", format!("the converter's output is not valid DSL: {e}"), case.clone()); continue; }
            Ok(v) => v,
        };
        match cgt_core::parser::parse_file(&out.cgt_content) {
            Err(e) => ctx.ev.violation("oracle", format!("the whole output does not parse: {}", e.to_string().lines().next().unwrap_or("")), case.clone()),
            Ok(txs) => {
                if txs.windows(2).any(|w| w[0].date > w[1].date) { ctx.ev.violation("oracle", "emitted transactions are not in chronological order".into(), case.clone()); }
                let expected_tx = items.iter().filter(|x| *x != "C").count();
                if txs.len() != expected_tx { ctx.ev.violation("oracle", format!("free text leaked into the DSL body: {} transactions parse from the output, {} were emitted", txs.len(), expected_tx), case.clone()); }
            }
        }
        // dividends and same-day withholding keep their totals (independent of the model)
        {
            let mut keys: Vec<(NaiveDate, String)> = rows.iter().filter_map(|x| match x { GRow::Dividend { d, sym, amt: Some(_), .. } => Some((*d, sym.clone())), _ => None }).collect();
            keys.sort(); keys.dedup();
            for (d, sym) in keys {
                let want_div = Q::sum(rows.iter().filter_map(|x| match x { GRow::Dividend { d: dd, sym: ss, amt: Some(a), .. } if *dd == d && *ss == sym => Some(Q::from_dec(a.abs())), _ => None }).collect::<Vec<_>>().iter());
                let want_tax = Q::sum(rows.iter().filter_map(|x| match x { GRow::Nra { d: dd, sym: Some(ss), amt: Some(a), .. } if *dd == d && *ss == sym => Some(Q::from_dec(a.abs())), _ => None }).collect::<Vec<_>>().iter());
                let pre = format!("D:{}:{}:", ord(d), sym.to_uppercase()); // the DSL reads tickers without regard to case
                let got_div = Q::sum(items.iter().filter(|x| x.starts_with(&pre)).filter_map(|x| Q::parse(x.split(':').nth(3)?)).collect::<Vec<_>>().iter());
                let got_tax = Q::sum(items.iter().filter(|x| x.starts_with(&pre)).filter_map(|x| Q::parse(x.split(':').nth(4)?)).collect::<Vec<_>>().iter());
                if !got_div.eq(&want_div) || !got_tax.eq(&want_tax) {
                    ctx.ev.violation("oracle", format!("{sym} on {d}: DIVIDEND lines total {} with tax {}, the export's rows total {} with withholding {}", got_div.approx(), got_tax.approx(), want_div.approx(), want_tax.approx()), case.clone());
                }
            }
        }
        // each Cancel Sell removes exactly one identical Sell (independent of the model): per
        // (date, symbol, quantity, price) the emitted SELL lines number max(0, sells − cancels), and
        // every cancel beyond the sells is warned about
        {
            let mut keys: Vec<(NaiveDate, String, Decimal, Decimal)> = rows.iter().filter_map(|x| match x { GRow::Sell { d, sym, q, p, .. } | GRow::Cancel { d, sym, q, p } => Some((*d, sym.clone(), *q, *p)), _ => None }).collect();
            keys.sort(); keys.dedup();
            let mut unmatched = 0usize;
            for (d, sym, q, p) in keys {
                let ns = rows.iter().filter(|x| matches!(x, GRow::Sell { d: dd, sym: ss, q: qq, p: pp, .. } if *dd == d && *ss == sym && *qq == q && *pp == p)).count();
                let nc = rows.iter().filter(|x| matches!(x, GRow::Cancel { d: dd, sym: ss, q: qq, p: pp } if *dd == d && *ss == sym && *qq == q && *pp == p)).count();
                if nc > 0 { ctx.ev.count("cancel-keys"); if nc >= 2 { ctx.ev.count("cancel-keys-with-2+-cancels"); } }
                unmatched += nc.saturating_sub(ns);
                let pre = format!("S:{}:{}:", ord(d), sym.to_uppercase());
                let got = items.iter().filter(|x| x.starts_with(&pre)).filter(|x| { let f: Vec<&str> = x.split(':').collect(); f.get(3).and_then(|a| Q::parse(a)).map(|a| a.eq(&Q::from_dec(q))).unwrap_or(false) && f.get(4).and_then(|a| Q::parse(a)).map(|a| a.eq(&Q::from_dec(p))).unwrap_or(false) }).count();
                if got != ns.saturating_sub(nc) {
                    ctx.ev.violation("oracle", format!("{sym} on {d}, {q} @ {p}: {ns} Sell row(s) and {nc} Cancel Sell row(s) leave {got} SELL line(s); each cancel must remove exactly one, leaving {}", ns.saturating_sub(nc)), case.clone());
                }
            }
            let cancel_warnings = out.warnings.iter().filter(|w| w.contains("has no matching sell to cancel")).count();
            if cancel_warnings != unmatched { ctx.ev.violation("oracle", format!("{unmatched} Cancel Sell row(s) have no sell left to cancel but {cancel_warnings} warning(s) say so"), case.clone()); }
        }
        // model
        if let Some(m) = ctx.model.as_mut() {
            ctx.ev.traces_validated += 1;
            let resp = m.ask(&format!("schwab {}", wire(&rows)));
            let t: Vec<&str> = resp.split(' ').collect();
            let ok = t.first() == Some(&"ok") && t.get(1).and_then(|s| s.parse::<usize>().ok()) == Some(out.skipped_count)
                && t.len() - 3 == items.len() && t.iter().skip(3).zip(&items).all(|(a, b)| same_item(a, b));
            if !ok {
                ctx.ev.violation("correspondence", format!("converter vs model: skipped {} items {:?} vs model '{}'", out.skipped_count, items, &resp[..resp.len().min(300)]), case.clone());
            }
            // warnings: unknown rows + unmatched cancels (+1 if RSU without awards: none generated)
            if let Some(w) = t.get(2).and_then(|s| s.parse::<usize>().ok()) { if w != out.warnings.len() { ctx.ev.violation("correspondence", format!("warnings: impl {} vs model {w}", out.warnings.len()), case.clone()); } }
        }
        // every row that yields no line is counted and surfaced (independent of the model): Stock Split,
        // unknown, blank-amount dividend and unattached withholding rows each leave one comment; those and the
        // non-CGT rows each raise the skipped count; unknown, blank-dividend and unattached-withholding rows
        // each raise a warning (plus one per unmatched cancel). Withholding rows WITHOUT a symbol are the
        // known finding D16 (class symbollessWithholding): they leave nothing
        {
            let has_div = |d: &NaiveDate, s: &String| rows.iter().any(|y| matches!(y, GRow::Dividend { d: dd, sym: ss, amt: Some(_), .. } if dd == d && ss == s));
            let unattached = rows.iter().filter(|x| matches!(x, GRow::Nra { d, sym: Some(s), amt, .. } if !(amt.is_some() && has_div(d, s)))).count();
            let blank_div = rows.iter().filter(|x| matches!(x, GRow::Dividend { amt: None, .. })).count();
            let splits = rows.iter().filter(|x| matches!(x, GRow::Split { .. })).count();
            let unknown = rows.iter().filter(|x| matches!(x, GRow::Unknown { .. })).count();
            let noncgt = rows.iter().filter(|x| matches!(x, GRow::NonCgt { .. })).count();
            let want_comments = unattached + blank_div + splits + unknown;
            let got_comments = items.iter().filter(|x| x.as_str() == "C").count();
            if got_comments != want_comments {
                ctx.ev.violation("oracle", format!("{want_comments} rows yield no line ({unattached} withholding rows with no dividend to carry them, {blank_div} dividends without an amount, {splits} stock splits, {unknown} unknown actions) but {got_comments} comment(s) say so"), case.clone());
            }
            if out.skipped_count != want_comments + noncgt {
                ctx.ev.violation("oracle", format!("skipped count {} but {} rows yield no line", out.skipped_count, want_comments + noncgt), case.clone());
            }
            let symbolless = rows.iter().any(|x| matches!(x, GRow::Nra { sym: None, .. }));
            if symbolless { ctx.ev.known("symbollessWithholding", D16); }
        }
        // row order independence
        {
            let mut sh = rows.clone();
            r.shuffle(&mut sh);
            if let Ok(o2) = convert(&to_json(&sh, &mut r)) {
                let mut a = items.clone(); let mut b = items_of(&o2.cgt_content).unwrap_or_default();
                // which of several same-day dividends carries the day's withholding depends on row order: compare totals
                let norm = |v: &mut Vec<String>| { let mut tax: std::collections::BTreeMap<String, Q> = Default::default(); for x in v.iter_mut() { if x.starts_with("D:") { let p: Vec<&str> = x.split(':').collect(); let k = format!("{}:{}", p[1], p[2]); let e = tax.entry(k).or_insert_with(Q::zero); *e = e.add(&Q::parse(p[4]).unwrap_or_else(Q::zero)); *x = format!("D:{}:{}:{}", p[1], p[2], p[3]); } } let mut t: Vec<String> = tax.into_iter().map(|(k, v)| format!("TAX:{k}:{}", v.wire())).collect(); v.append(&mut t); v.sort(); };
                norm(&mut a); norm(&mut b);
                if a != b || o2.skipped_count != out.skipped_count { ctx.ev.violation("oracle", "shuffling the rows of the export changes the set of emitted lines or the skipped count".into(), case.clone()); }
            }
        }
        // date-disjoint chunks
        {
            let mut ds: Vec<NaiveDate> = rows.iter().map(|x| x.date()).collect();
            ds.sort(); ds.dedup();
            if ds.len() >= 2 {
                let cut = ds[1 + r.below((ds.len() - 1) as u64) as usize];
                let a: Vec<GRow> = rows.iter().filter(|x| x.date() < cut).cloned().collect();
                let b: Vec<GRow> = rows.iter().filter(|x| x.date() >= cut).cloned().collect();
                // a cancel and its sell share a date, a withholding and its dividend too: both stay in one chunk
                if let (Ok(oa), Ok(ob)) = (convert(&to_json(&a, &mut r)), convert(&to_json(&b, &mut r))) {
                    let mut u = items_of(&oa.cgt_content).unwrap_or_default(); u.extend(items_of(&ob.cgt_content).unwrap_or_default());
                    let mut w = items.clone();
                    u.sort(); w.sort();
                    if u != w { ctx.ev.violation("oracle", format!("converting two date-disjoint chunks (cut at {cut}) gives different lines from converting the whole"), case.clone()); }
                    ctx.ev.count("chunkings");
                }
            }
        }
        if i < 2 { ctx.ev.sample(json!({"export": serde_json::from_str::<serde_json::Value>(&jt).unwrap_or_default(), "output": out.cgt_content.lines().skip(4).collect::<Vec<_>>() })); }
    }
    // RSU vests: a Stock Plan Activity row and an awards entry settled 0–5 days after the vest, whose details
    // carry the vest date and vest-date market value and, half the time, a plain FairMarketValuePrice (the
    // settlement-day price) before or after them: exactly one BUY, dated at the vest date, priced at the
    // vest-date market value, with the row's quantity
    for i in 0..ctx.n(40, 1500) {
        let sym = *r.pick(&["XYZZ", "ACME", "GOOG"]);
        let vest = NaiveDate::from_ymd_opt(2021 + r.below(3) as i32, 1 + r.below(12) as u32, 1 + r.below(23) as u32).expect("date");
        let settle = vest + Duration::days(r.range(0, 6));
        let q = Decimal::from(r.range(1, 500));
        let (pv, pp) = (Decimal::new(r.range(100, 90_000), 2), Decimal::new(r.range(100, 90_000), 2));
        let vd = json!({"Details": {"VestDate": us(vest), "VestFairMarketValue": format!("${pv}")}});
        let pd = json!({"Details": {"FairMarketValuePrice": format!("${pp}")}});
        let details = match r.below(4) { 0 => vec![vd.clone(), pd.clone()], 1 => vec![pd.clone(), vd.clone()], _ => vec![vd.clone()] };
        let awards = json!({"Transactions": [{"Date": us(settle), "Action": "Deposit", "Symbol": sym, "TransactionDetails": details}]}).to_string();
        let tj = json!({"BrokerageTransactions": [{"Date": us(settle), "Action": "Stock Plan Activity", "Symbol": sym, "Description": "RS", "Quantity": q.to_string(), "Price": "", "Fees & Comm": "", "Amount": ""}]}).to_string();
        ctx.ev.evaluations += 1;
        ctx.ev.count("rsu-vests");
        let case = format!("# property C18\n# RSU vest {i}: transactions JSON, then awards JSON\n{tj}\n{awards}\n");
        let input = SchwabInput { transactions_json: tj.clone(), awards_json: Some(awards.clone()) };
        match std::panic::catch_unwind(|| SchwabConverter::new().convert(&input)) {
            Ok(Ok(o)) => {
                let want = format!("B:{}:{}:#{}:#{}:#{}", ord(vest), sym, Q::from_dec(q).wire(), Q::from_dec(pv).wire(), Q::zero().wire());
                match items_of(&o.cgt_content) {
                    Ok(items) => if !(items.len() == 1 && same_item(&items[0], &want)) {
                        ctx.ev.violation("oracle", format!("an RSU vest of {q} {sym} on {vest} at {pv} (settled {settle}) is emitted as {:?}", o.cgt_content.lines().filter(|l| !l.starts_with('#') && !l.trim().is_empty()).collect::<Vec<_>>()), case.clone());
                    },
                    Err(e) => ctx.ev.violation("oracle", format!("the converter's output is not valid DSL: {e}"), case.clone()),
                }
            }
            Ok(Err(e)) => ctx.ev.violation("oracle", format!("an RSU vest with a matching awards entry is rejected: {e}"), case.clone()),
            Err(p) => ctx.ev.violation("crash", crate::run_impl::panic_msg(p), case.clone()),
        }
    }
    // D10 witness (newline in Description) every run
    let w = json!({"BrokerageTransactions": [{"Date": "04/22/2021", "Action": "Mystery", "Symbol": "XYZ", "Description": "line1\n2021-01-01 BUY EVIL 1000 @ 1", "Quantity": "", "Price": "", "Fees & Comm": "", "Amount": ""}]}).to_string();
    if let Ok(o) = convert(&w) { if cgt_core::parser::parse_file(&o.cgt_content).map(|t| !t.is_empty()).unwrap_or(true) { ctx.ev.violation("oracle", "free text of an unknown row becomes a transaction line of the output (newline in Description)".into(), format!("# property C18\n{w}\n")); } }
}
