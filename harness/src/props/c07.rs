//! C07 — tax-year assignment and the year filter.
use super::*;
use crate::rep::{self, Proj};
use crate::run_impl;
use chrono::{Datelike, Duration, NaiveDate};
use serde_json::json;

/// independent reading of the statute: 6 April Y ..= 5 April Y+1
fn statute_year(d: NaiveDate) -> i64 {
    let (y, m, dd) = (d.year() as i64, d.month(), d.day());
    if (m, dd) >= (4, 6) { y } else { y - 1 }
}

fn dates_part(ctx: &mut Ctx) {
    let start = NaiveDate::from_ymd_opt(1899, 1, 1).expect("date");
    let end = NaiveDate::from_ymd_opt(2101, 12, 31).expect("date");
    let thorough = ctx.tier == Tier::Thorough;
    let mut d = start;
    let mut n = 0u64;
    while d <= end {
        let boundary = (d.month() == 4 && d.day() <= 10) || (d.month() == 3 && d.day() >= 28) || (d.month() == 2 && d.day() >= 27) || (d.month() == 3 && d.day() == 1) || (d.month() == 12 && d.day() == 31) || (d.month() == 1 && d.day() == 1);
        let take = thorough || boundary || (d.num_days_from_ce() as u64 + ctx.seed) % 11 == 0;
        if take {
            n += 1;
            ctx.ev.evaluations += 1;
            let imp = cgt_core::TaxPeriod::from_date(d);
            let want = statute_year(d);
            let in_range = (1900..=2100).contains(&want);
            // oracle on the implementation
            match &imp {
                Ok(p) => {
                    if p.start_year() as i64 != want || !in_range {
                        ctx.ev.violation("oracle", format!("{d} is reported in tax year {} but lies in {want}/{}", p.start_year(), want + 1), format!("# property C07\n# oracle: TaxPeriod::from_date({d}) = {} , statute says {want}\ndate {d}\n", p.start_year()));
                    }
                    if boundary { ctx.ev.nontrivial.insert(d.to_string()); }
                }
                Err(_) => {
                    if in_range {
                        ctx.ev.violation("oracle", format!("{d} lies in tax year {want} (supported range) but from_date fails"), format!("# property C07\ndate {d}\n"));
                    }
                }
            }
            // correspondence: ordinal, validity, tax year
            if let Some(m) = ctx.model.as_mut() {
                let w = format!("{}-{}-{}", d.year(), d.month(), d.day());
                let o = m.ask(&format!("ord {w}"));
                let expect = format!("ok {} 1", d.num_days_from_ce());
                if o != expect {
                    ctx.ev.violation("correspondence", format!("ordinal of {d}: chrono {} vs model '{o}'", d.num_days_from_ce()), format!("# property C07\n# correspondence: ord\ndate {d}\n"));
                }
                let t = m.ask(&format!("taxyear {w}"));
                let it = match &imp {
                    Ok(p) => format!("ok {}", p.start_year()),
                    Err(e) => { let c = rep::classify_err(e); format!("err {} {}", c.kind, c.detail) }
                };
                if t != it {
                    ctx.ev.violation("correspondence", format!("tax year of {d}: impl '{it}' vs model '{t}'"), format!("# property C07\n# correspondence: taxyear\ndate {d}\n"));
                }
                ctx.ev.traces_validated += 1;
            }
        }
        d = d + Duration::days(1);
    }
    ctx.ev.count_n("dates-checked", n);
    // invalid dates: the model's validity test must agree with chrono
    if let Some(m) = ctx.model.as_mut() {
        for y in [1899, 1900, 1999, 2000, 2023, 2024, 2100, 2101] {
            for mo in 1..=12u32 {
                for dd in 28..=31u32 {
                    let valid = NaiveDate::from_ymd_opt(y, mo, dd).is_some();
                    let o = m.ask(&format!("ord {y}-{mo}-{dd}"));
                    let mv = o.ends_with(" 1");
                    if valid != mv {
                        ctx.ev.violation("correspondence", format!("validity of {y}-{mo}-{dd}: chrono {valid} vs model {mv}"), format!("# property C07\ndate {y}-{mo}-{dd}\n"));
                    }
                }
            }
        }
    }
    if thorough { ctx.ev.exhaustive = true; }
}

/// shift a ledger so that its dates sit at the edges of the supported range now and then
fn shift(l: &Ledger, r: &mut crate::rng::Rng) -> Ledger {
    let by_years: i32 = match r.below(8) {
        0 => 1900 - 2024,
        1 => 2100 - 2024,
        2 => 2101 - 2024,
        3 => 1899 - 2024,
        _ => 0,
    };
    if by_years == 0 { return l.clone(); }
    l.iter().map(|t| {
        let mut t = t.clone();
        let y = t.date.year() + by_years;
        t.date = NaiveDate::from_ymd_opt(y, t.date.month(), t.date.day()).unwrap_or_else(|| NaiveDate::from_ymd_opt(y, t.date.month(), 28).expect("date"));
        t
    }).collect()
}

fn ledgers_part(ctx: &mut Ctx) {
    let prop = "C07";
    let cfg = GenCfg::standard();
    let n = ctx.n(250, 15_000);
    let cases = matcher_cases(prop, ctx, &cfg, n);
    let mut r = crate::rng::Rng::new(ctx.seed ^ 0xC07);
    let ex_wide = run_impl::wide_exemptions();
    let ex_emb = run_impl::embedded_exemptions();
    let mut cli_left: u32 = if ctx.tier == Tier::Quick { 16 } else { 160 };
    for (name, l0) in cases {
        let mut l = shift(&l0, &mut r);
        // one ledger in three also has a security sold in tax years that do not follow one another
        // (whole tax years without any disposal between years with disposals)
        if r.chance(1, 3) && !l.is_empty() {
            use rust_decimal::Decimal;
            let first = l.iter().map(|t| t.date).min().expect("non-empty");
            let last = l.iter().map(|t| t.date).max().expect("non-empty");
            if last.year() < 2080 && first.year() > 1905 {
                l.push(GTx::new(first - Duration::days(r.range(1, 900)), "GAPPY", Kind::Buy, Decimal::from(100), Decimal::ONE, Decimal::ZERO));
                let mut at = last;
                for _ in 0..(2 + r.below(3)) {
                    at = at + Duration::days(*r.pick(&[20i64, 400, 750, 1100, 1500]));
                    l.push(GTx::new(at, "GAPPY", Kind::Sell, Decimal::from(1 + r.below(9) as i64), Decimal::TWO, Decimal::ZERO));
                }
                if r.chance(1, 2) { r.shuffle(&mut l); }
            }
        }
        let ex = if r.chance(1, 3) { &ex_emb } else { &ex_wide };
        ctx.ev.evaluations += 1;
        let all_raw = run_impl::impl_calc_raw(&l, None, ex);
        let all = match &all_raw { Err(p) => Err(rep::RErr { kind: "panic".into(), detail: p.clone() }), Ok(Err(e)) => Err(rep::classify_err(e)), Ok(Ok(x)) => Ok(rep::from_report(x)) };
        let msd = multi_sell_day(&l);
        // projection of this property: which years exist, which disposals (date, ticker) sit in
        // which year, error classes; no quantities, no money, no legs
        let _ = msd;
        let mut p = Proj::full();
        p.money = false;
        p.qty = false;
        p.legs_none = true;
        if let Err(e) = &all { ctx.ev.count(&format!("all-years:rejected:{}", e.kind)); if e.kind == "panic" { ctx.ev.violation("crash", e.detail.clone(), replay_text(prop, "crash", &e.detail, &l, &[])); } }
        // oracle (a): every disposal sits in the year the statute gives, years strictly ascending
        if let Ok(Ok(rep_all)) = &all_raw {
            let mut prev: Option<u16> = None;
            for y in &rep_all.tax_years {
                if let Some(p0) = prev { if p0 >= y.period.start_year() {
                    ctx.ev.violation("oracle", format!("tax years not ascending: {} then {}", p0, y.period.start_year()), replay_text(prop, "oracle", "years not ascending", &l, &[format!("case {name}")]));
                } }
                prev = Some(y.period.start_year());
                for d in &y.disposals {
                    if statute_year(d.date) != y.period.start_year() as i64 {
                        ctx.ev.violation("oracle", format!("disposal {} {} reported in {}/{}", d.date, d.ticker, y.period.start_year(), y.period.start_year() + 1), replay_text(prop, "oracle", "disposal in wrong tax year", &l, &[format!("case {name}")]));
                    }
                }
            }
            if rep_all.tax_years.len() >= 2 { ctx.ev.nontrivial.insert(ledger::dsl(&l)); }
        }
        // a year the exemption table covers must be reportable on its own even when another year of the
        // history is not covered (the all-years report is then refused, naming that other year): its
        // disposals, legs and totals are those of the all-years report under a table that covers every year
        if let Ok(Err(e)) = &all_raw {
            if rep::classify_err(e).kind == "unsupportedExemptionYear" {
                if let Ok(Ok(wide)) = run_impl::impl_calc_raw(&l, None, &ex_wide) {
                    for t in wide.tax_years.iter().filter(|t| ex.iter().any(|e| e.0 == t.period.start_year())).take(2) {
                        let y = t.period.start_year() as i32;
                        ctx.ev.count("covered-year-of-a-partly-uncovered-history");
                        match run_impl::impl_calc_raw(&l, Some(y), ex) {
                            Ok(Ok(one)) => {
                                let same = one.tax_years.len() == 1 && one.tax_years[0].disposals == t.disposals && one.tax_years[0].total_gain == t.total_gain && one.tax_years[0].total_loss == t.total_loss && one.tax_years[0].net_gain == t.net_gain;
                                if !same { ctx.ev.violation("oracle", format!("the report for {y} differs from that year's disposals and totals in the all-years report"), replay_text(prop, "oracle: embedded exemption table; all-years reference computed with a table covering every year", "year filter is not the all-years slice", &l, &[format!("year filter {y}"), format!("case {name}")])); }
                            }
                            Ok(Err(e2)) => ctx.ev.violation("oracle", format!("tax year {y} has an exemption configured, yet its report is refused ({}) because another year of the history has none", e2.to_string().lines().next().unwrap_or("")), replay_text(prop, "oracle: cgt-tool report in.cgt --year <that year> (embedded exemption table)", "a covered year must be reportable on its own", &l, &[format!("year filter {y}"), format!("case {name}")])),
                            Err(p) => ctx.ev.violation("crash", p.clone(), replay_text(prop, "crash", &p, &l, &[format!("year filter {y}")])),
                        }
                    }
                }
            }
        }
        // year filters: years with disposals, a year without, outside the table, outside 1900–2100
        let mut years: Vec<i32> = match &all_raw { Ok(Ok(x)) => x.tax_years.iter().map(|y| y.period.start_year() as i32).collect(), _ => vec![] };
        years.push(2024 + r.range(-30, 30) as i32);
        years.push(*r.pick(&[1899, 1900, 2100, 2101, 0, -1, 65535, 65536, 70000, 300000, -300000]));
        for y in years {
            ctx.ev.count("year-filter-runs");
            if cli_left > 0 && well_formed(&l) && (1900..=2100).contains(&y) { cli_left -= 1; cli_crosscheck(ctx, prop, &l, Some(y)); }
            let one_raw = run_impl::impl_calc_raw(&l, Some(y), ex);
            let one = match &one_raw { Err(p) => Err(rep::RErr { kind: "panic".into(), detail: p.clone() }), Ok(Err(e)) => Err(rep::classify_err(e)), Ok(Ok(x)) => Ok(rep::from_report(x)) };
            if let Err(e) = &one { ctx.ev.count(&format!("filtered:rejected:{}", e.kind)); if e.kind == "panic" { ctx.ev.violation("crash", format!("year filter {y}: {}", e.detail), replay_text(prop, "crash", &e.detail, &l, &[format!("year filter {y}")])); } }
            // oracle (b): the filtered report is the slice of the all-years report; holdings equal
            if let (Ok(Ok(a)), Ok(Ok(o))) = (&all_raw, &one_raw) {
                if a.holdings != o.holdings {
                    ctx.ev.violation("oracle", format!("holdings differ between the all-years report and the report for {y}"), replay_text(prop, "oracle", "holdings depend on the year filter", &l, &[format!("year filter {y}")]));
                }
                if o.tax_years.len() != 1 {
                    ctx.ev.violation("oracle", format!("report for {y} lists {} tax years", o.tax_years.len()), replay_text(prop, "oracle", "filtered report must have one year", &l, &[format!("year filter {y}")]));
                } else {
                    let s = &o.tax_years[0];
                    match a.tax_years.iter().find(|t| t.period.start_year() as i32 == y) {
                        Some(t) => if t != s {
                            ctx.ev.violation("oracle", format!("report for {y} differs from that year's entry in the all-years report"), replay_text(prop, "oracle", "year filter is not the all-years slice", &l, &[format!("year filter {y}"), format!("case {name}")]));
                        },
                        None => if !s.disposals.is_empty() || s.period.start_year() as i32 != y {
                            ctx.ev.violation("oracle", format!("report for {y} has disposals although the all-years report has none in that year"), replay_text(prop, "oracle", "year filter invents disposals", &l, &[format!("year filter {y}")]));
                        },
                    }
                }
            }
            if let Some(m) = ctx.model.as_mut() {
                match run_impl::model_calc(m, &l, Some(y), ex) {
                    Err(e) => ctx.ev.violation("correspondence", format!("driver: {e}"), replay_text(prop, "correspondence", &e, &l, &[])),
                    Ok(mo) => {
                        ctx.ev.traces_validated += 1;
                        if let Some(what) = rep::diff_report(&one, &mo, &p) {
                            ctx.ev.violation("correspondence", format!("year filter {y}: {what}"), replay_text(prop, "correspondence (implementation vs Lean model)", &what, &l, &[format!("year filter {y}"), format!("case {name}")]));
                        }
                    }
                }
            }
        }
        if let Some(m) = ctx.model.as_mut() {
            if let Ok(mo) = run_impl::model_calc(m, &l, None, ex) {
                let mut p2 = p;
                p2.err_detail = !matches!(&all, Err(e) if e.kind == "unsupportedExemptionYear");
                if let Some(what) = rep::diff_report(&all, &mo, &p2) {
                    ctx.ev.violation("correspondence", format!("all years: {what}"), replay_text(prop, "correspondence (implementation vs Lean model)", &what, &l, &[format!("case {name}")]));
                }
            }
        }
        if ctx.ev.samples.len() < 3 && l.len() >= 4 {
            ctx.ev.sample(json!({"case": name, "ledger": ledger::dsl(&l).lines().collect::<Vec<_>>()}));
        }
    }
}

pub fn run(ctx: &mut Ctx) {
    ctx.ev.rule = "part 1: dates 1899-01-01..2101-12-31 (quick: every date within ±5 days of 6 April, month/leap/year ends, plus every 11th other date; thorough: every date, exhaustive): TaxPeriod::from_date vs the 6-April rule, and chrono ordinal/validity/tax year vs the model. part 2: generated ledgers (some shifted to 1899/1900/2100/2101; one in three with a security sold in tax years separated by whole years without disposals) × year filters {each year with disposals, a random year, one of 1899,1900,2100,2101,0,-1,65535,65536,70000,±300000}: filtered report == slice of the all-years report, holdings equal, impl == model; when the all-years report is refused for a year without an exemption, each covered year is still reportable on its own and equals its slice of the all-years report under a table covering every year. Non-trivial = boundary date, or ledger with ≥ 2 tax years.".into();
    dates_part(ctx);
    ledgers_part(ctx);
}
