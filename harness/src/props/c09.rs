//! C09 — securities are independent; ticker case.
use super::*;
use crate::q::Q;
use crate::rep::{self, Out, Proj, RRep};
use crate::run_impl;
use serde_json::json;

/// combine per-security reports: disposals by (date, ticker), holdings by ticker, totals added
fn combine(parts: &[RRep]) -> RRep {
    let mut years: Vec<rep::RYear> = Vec::new();
    for p in parts {
        for y in &p.years {
            if let Some(t) = years.iter_mut().find(|t| t.year == y.year) {
                t.gain = t.gain.add(&y.gain);
                t.loss = t.loss.add(&y.loss);
                t.net = t.net.add(&y.net);
                t.div_income = t.div_income.add(&y.div_income);
                t.div_tax = t.div_tax.add(&y.div_tax);
                t.disposals.extend(y.disposals.iter().cloned());
            } else {
                years.push(y.clone());
            }
        }
    }
    years.sort_by_key(|y| y.year);
    for y in &mut years {
        y.disposals.sort_by(|a, b| (a.date, &a.ticker).cmp(&(b.date, &b.ticker)));
        y.taxable = y.net.sub(&y.exempt).max(&Q::zero());
    }
    let mut holdings: Vec<(String, Q, Q)> = parts.iter().flat_map(|p| p.holdings.iter().cloned()).collect();
    holdings.sort_by(|a, b| a.0.cmp(&b.0));
    RRep { years, holdings }
}

pub fn run(ctx: &mut Ctx) {
    let prop = "C09";
    let mut cfg = GenCfg::standard();
    cfg.max_tickers = 4;
    cfg.max_tx = 18;
    let n = ctx.n(400, 25_000);
    let mut cases = matcher_cases(prop, ctx, &cfg, n);
    // twin contention: the same date skeleton for two or three securities, with different quantities
    // (shared per-date state between securities would show here)
    {
        let mut r = crate::rng::Rng::new(ctx.seed ^ 0x7719);
        for i in 0..(n / 3) {
            let base = ledger::gen_contention(&mut r, &cfg);
            let mut l = base.clone();
            for (k, tk) in ["BBB", "CCC"].iter().enumerate() {
                if k == 1 && r.chance(1, 2) { break; }
                for t in &base {
                    let mut t = t.clone();
                    t.ticker = tk.to_string();
                    match t.kind {
                        Kind::Sell => { if r.chance(1, 3) { continue; } t.a = (t.a / rust_decimal::Decimal::from(1 + r.below(3))).round_dp(2).max(rust_decimal::Decimal::ONE); }
                        Kind::Buy => { t.a = t.a + rust_decimal::Decimal::from(r.below(20)); t.b = ledger::gen_price(&mut r); }
                        _ => {}
                    }
                    l.push(t);
                }
            }
            r.shuffle(&mut l);
            cases.push((format!("twin#{i}"), l));
        }
    }
    ctx.ev.rule = "generated ledgers over 1–4 securities interleaved on shared dates, plus 'twin' ledgers (one contention skeleton of dates replicated for 2–3 securities with different quantities): report(all) must equal the combination of the reports of each security's lines alone (disposals, legs, holdings; year totals adding up), legs exactly unless a (date, security) has ≥ 2 SELL lines (then per rule and acquisition date — D17); ticker case: the ledger with randomly re-cased tickers parsed from DSL and from JSON must give the same transactions, and (JSON) so must a security renamed to a name with accented, Greek or Cyrillic letters in mixed case. Non-trivial = accepted ledger with ≥ 2 securities sharing a date; distinct by ledger text.".into();
    let ex = run_impl::wide_exemptions();
    let mut r = crate::rng::Rng::new(ctx.seed ^ 0xC09);
    let mut cli_left: u32 = if ctx.tier == Tier::Quick { 8 } else { 80 };
    for (name, l) in cases {
        if cli_left > 0 && well_formed(&l) && l.len() >= 3 { cli_left -= 1; cli_crosscheck(ctx, prop, &l, None); }
        ctx.ev.evaluations += 1;
        let whole = run_impl::impl_calc(&l, None, &ex);
        let msd = multi_sell_day(&l);
        let mut tickers: Vec<String> = l.iter().map(|t| t.ticker.clone()).collect();
        tickers.sort();
        tickers.dedup();
        let shared = l.iter().any(|a| l.iter().any(|b| a.date == b.date && a.ticker != b.ticker));
        match &whole {
            Ok(w) => {
                ctx.ev.count("accepted");
                if tickers.len() >= 2 && shared { ctx.ev.nontrivial.insert(ledger::dsl(&l)); }
                let mut parts = Vec::new();
                let mut failed = None;
                for t in &tickers {
                    let sub: Ledger = l.iter().filter(|x| &x.ticker == t).cloned().collect();
                    match run_impl::impl_calc(&sub, None, &ex) {
                        Ok(p) => parts.push(p),
                        Err(e) => { failed = Some((t.clone(), e)); break; }
                    }
                }
                if let Some((t, e)) = failed {
                    ctx.ev.violation("oracle", format!("the whole ledger is accepted but {t}'s lines alone are rejected ({} {})", e.kind, e.detail), replay_text(prop, "oracle", "independence of securities", &l, &[format!("case {name}")]));
                } else {
                    let mut comb = combine(&parts);
                    // dividends are reported only for years that have disposals, so a security
                    // with dividends but no disposal in a year has no per-security year entry:
                    // dividend totals are C04's business, not part of this comparison
                    for y in &mut comb.years {
                        if let Some(wy) = w.years.iter().find(|t| t.year == y.year) { y.div_income = wy.div_income.clone(); y.div_tax = wy.div_tax.clone(); }
                    }
                    let comb: Out<RRep> = Ok(comb);
                    let mut p = Proj::full();
                    if msd { p.legs_exact = false; }
                    if let Some(what) = rep::diff_report(&Ok(w.clone()), &comb, &p) {
                        let what = what.replace("impl ", "whole ").replace("model ", "per-security ");
                        let mut f = |c: &Ledger| {
                            if multi_sell_day(c) { return false; }
                            let Ok(w) = run_impl::impl_calc(c, None, &ex) else { return false };
                            let mut ts: Vec<String> = c.iter().map(|t| t.ticker.clone()).collect(); ts.sort(); ts.dedup();
                            let mut ps = Vec::new();
                            for t in &ts { let sub: Ledger = c.iter().filter(|x| &x.ticker == t).cloned().collect(); match run_impl::impl_calc(&sub, None, &ex) { Ok(p) => ps.push(p), Err(_) => return true } }
                            let mut cb = combine(&ps);
                            for y in &mut cb.years { if let Some(wy) = w.years.iter().find(|t| t.year == y.year) { y.div_income = wy.div_income.clone(); y.div_tax = wy.div_tax.clone(); } }
                            rep::diff_report(&Ok(w), &Ok(cb), &Proj::full()).is_some()
                        };
                        let small = if msd { l.clone() } else { ledger::shrink(&l, &mut f) };
                        ctx.ev.violation("oracle", format!("report(all securities) ≠ combination of per-security reports: {what}"), replay_text(prop, "oracle", &what, &small, &[format!("case {name}")]));
                    }
                }
            }
            Err(e) => {
                ctx.ev.count(&format!("rejected:{}", e.kind));
                if e.kind == "panic" { ctx.ev.violation("crash", e.detail.clone(), replay_text(prop, "crash", &e.detail, &l, &[])); }
                // a rejected whole must have a rejected part (with the same error)
                let mut any = false;
                for t in &tickers {
                    let sub: Ledger = l.iter().filter(|x| &x.ticker == t).cloned().collect();
                    if let Err(pe) = run_impl::impl_calc(&sub, None, &ex) { if pe.kind == e.kind { any = true; } }
                }
                if !any && e.kind != "panic" {
                    ctx.ev.violation("oracle", format!("the whole ledger is rejected ({} {}) but every security's lines alone are accepted", e.kind, e.detail), replay_text(prop, "oracle", "independence of securities", &l, &[format!("case {name}")]));
                }
            }
        }
        // ticker case, DSL and JSON
        {
            let recase = |s: &str, r: &mut crate::rng::Rng| -> String { s.chars().map(|c| if r.chance(1, 2) { c.to_ascii_lowercase() } else { c.to_ascii_uppercase() }).collect() };
            let base_txs = ledger::to_txs(&l);
            let mut varied = l.clone();
            for t in &mut varied { t.ticker = recase(&t.ticker, &mut r); }
            ctx.ev.count("ticker-case-variants");
            match cgt_core::parser::parse_file(&ledger::dsl(&varied)) {
                Ok(txs) => if txs != base_txs {
                    ctx.ev.violation("oracle", "re-casing tickers in the DSL changes the parsed transactions".into(), format!("# property C09\n# oracle: ticker case (DSL)\n{}", ledger::dsl(&varied)));
                },
                Err(e) => ctx.ev.violation("oracle", format!("re-cased DSL does not parse: {e}"), format!("# property C09\n{}", ledger::dsl(&varied))),
            }
            let mut js = serde_json::to_value(&base_txs).expect("json");
            if let Some(arr) = js.as_array_mut() {
                for (o, v) in arr.iter_mut().zip(&varied) { o["ticker"] = json!(v.ticker); }
            }
            let orig = serde_json::from_value::<Vec<cgt_core::Transaction>>(serde_json::to_value(&base_txs).expect("json"));
            match (orig, serde_json::from_value::<Vec<cgt_core::Transaction>>(js.clone())) {
                (Ok(a), Ok(b)) => if a != b {
                    ctx.ev.violation("oracle", "re-casing tickers in JSON input changes the transactions".into(), format!("# property C09\n# oracle: ticker case (JSON)\n{}", js));
                },
                (Err(_), Err(_)) => {}
                (a, b) => ctx.ev.violation("oracle", format!("JSON input accepted with one ticker casing and rejected with another ({:?} vs {:?})", a.is_ok(), b.is_ok()), format!("# property C09\n{}", js)),
            }
        }
        // ticker case beyond ASCII (JSON input only: the DSL's tickers are ASCII): one security renamed to a
        // name with accented / Greek / Cyrillic letters, spelled in a random mix of cases on each line
        if r.chance(1, 4) && !l.is_empty() {
            let names = ["MÜLLER", "ÉLAN", "ŠKODA", "ΑΒΓ", "ЯНДЕКС", "ÅÄÖ1"];
            let upper = *r.pick(&names);
            let victim = l[r.below(l.len() as u64) as usize].ticker.clone();
            let base_txs = ledger::to_txs(&l);
            let mut canon = serde_json::to_value(&base_txs).expect("json");
            let mut mixed = canon.clone();
            if let (Some(a), Some(b)) = (canon.as_array_mut(), mixed.as_array_mut()) {
                for ((x, y), t) in a.iter_mut().zip(b.iter_mut()).zip(&l) {
                    if t.ticker == victim {
                        x["ticker"] = json!(upper);
                        let v: String = upper.chars().map(|c| if r.chance(1, 2) { c.to_lowercase().next().unwrap_or(c) } else { c }).collect();
                        y["ticker"] = json!(v);
                    }
                }
            }
            ctx.ev.count("ticker-case-variants:non-ascii");
            match (serde_json::from_value::<Vec<cgt_core::Transaction>>(canon), serde_json::from_value::<Vec<cgt_core::Transaction>>(mixed.clone())) {
                (Ok(a), Ok(b)) => if a != b {
                    ctx.ev.violation("oracle", "re-casing a ticker with non-ASCII letters in JSON input changes the transactions (two securities instead of one)".into(), format!("# property C09\n# oracle: ticker case (JSON, non-ASCII letters)\n{}", mixed));
                },
                (Err(_), Err(_)) => {}
                (a, b) => ctx.ev.violation("oracle", format!("JSON input accepted with one ticker casing and rejected with another ({:?} vs {:?})", a.is_ok(), b.is_ok()), format!("# property C09\n{}", mixed)),
            }
        }
        // correspondence: the model on the whole ledger (its per-security factoring is by construction)
        if let Some(m) = ctx.model.as_mut() {
            match run_impl::model_calc(m, &l, None, &ex) {
                Err(e) => ctx.ev.violation("correspondence", format!("driver: {e}"), replay_text(prop, "correspondence", &e, &l, &[])),
                Ok(mo) => {
                    ctx.ev.traces_validated += 1;
                    let mut p = Proj::full();
                    if msd { p.legs_exact = false; }
                    if let Some(what) = rep::diff_report(&whole, &mo, &p) {
                        ctx.ev.violation("correspondence", what.clone(), replay_text(prop, "correspondence (implementation vs Lean model)", &what, &l, &[format!("case {name}")]));
                    }
                }
            }
        }
        if ctx.ev.samples.len() < 3 && whole.is_ok() && tickers.len() >= 2 {
            ctx.ev.sample(json!({"case": name, "ledger": ledger::dsl(&l).lines().collect::<Vec<_>>()}));
        }
    }
}
