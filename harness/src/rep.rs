//! A report as both sides produce it (exact rationals), parsing of the driver's response,
//! conversion of the implementation's output, and projected comparison.
use crate::q::{Q, TOL_EXP};
use cgt_core::{CgtError, MatchRule, TaxReport};
use chrono::NaiveDate;
use std::collections::BTreeMap;

#[derive(Clone, Debug)]
pub struct RLeg {
    pub sell_date: NaiveDate,
    pub rule: String,
    pub qty: Q,
    pub cost: Q,
    pub gross: Option<Q>,
    pub net: Option<Q>,
    pub gain: Q,
    pub acq: Option<NaiveDate>,
}
#[derive(Clone, Debug)]
pub struct RDisp {
    pub date: NaiveDate,
    pub ticker: String,
    pub qty: Q,
    pub gross: Q,
    pub proceeds: Q,
    pub legs: Vec<RLeg>,
}
#[derive(Clone, Debug)]
pub struct RYear {
    pub year: i64,
    pub gain: Q,
    pub loss: Q,
    pub net: Q,
    pub exempt: Q,
    pub taxable: Q,
    pub div_income: Q,
    pub div_tax: Q,
    pub disposals: Vec<RDisp>,
}
#[derive(Clone, Debug)]
pub struct RRep {
    pub years: Vec<RYear>,
    pub holdings: Vec<(String, Q, Q)>,
}
#[derive(Clone, Debug)]
pub struct RMatchT {
    pub ticker: String,
    pub pool: Option<(Q, Q)>,
    pub legs: Vec<RLeg>,
}
#[derive(Clone, Debug, PartialEq, Eq)]
pub struct RErr {
    pub kind: String,
    /// ticker + date for matcher errors; a year for tax-year/exemption errors
    pub detail: String,
}
pub type Out<T> = Result<T, RErr>;

pub fn rule_name(r: &MatchRule) -> &'static str {
    match r {
        MatchRule::SameDay => "SameDay",
        MatchRule::BedAndBreakfast => "BedAndBreakfast",
        MatchRule::Section104 => "Section104",
    }
}

fn pdate(s: &str) -> Option<NaiveDate> {
    NaiveDate::parse_from_str(s, "%Y-%m-%d").ok()
}

struct Toks<'a> {
    t: Vec<&'a str>,
    i: usize,
}
impl<'a> Toks<'a> {
    fn next(&mut self) -> Result<&'a str, String> {
        let x = self.t.get(self.i).copied().ok_or_else(|| "unexpected end of driver response".to_string())?;
        self.i += 1;
        Ok(x)
    }
    fn peek(&self) -> Option<&'a str> {
        self.t.get(self.i).copied()
    }
    fn q(&mut self) -> Result<Q, String> {
        let s = self.next()?;
        Q::parse(s).ok_or_else(|| format!("bad number {s}"))
    }
    fn date(&mut self) -> Result<NaiveDate, String> {
        let s = self.next()?;
        pdate(s).ok_or_else(|| format!("bad date {s}"))
    }
    fn usize(&mut self) -> Result<usize, String> {
        let s = self.next()?;
        s.parse().map_err(|_| format!("bad count {s}"))
    }
}

fn parse_err(t: &mut Toks) -> Result<RErr, String> {
    let kind = t.next()?.to_string();
    let mut rest = Vec::new();
    while let Some(_) = t.peek() {
        rest.push(t.next()?);
    }
    Ok(RErr { kind, detail: rest.join(" ") })
}

pub fn parse_match(resp: &str) -> Result<Out<Vec<RMatchT>>, String> {
    let mut t = Toks { t: resp.split(' ').filter(|s| !s.is_empty()).collect(), i: 0 };
    match t.next()? {
        "err" => Ok(Err(parse_err(&mut t)?)),
        "ok" => {
            let mut out = Vec::new();
            while let Some(tok) = t.peek() {
                if tok != "T" { return Err(format!("expected T, got {tok}")); }
                t.next()?;
                let ticker = t.next()?.to_string();
                let pool = match t.next()? {
                    "P" => Some((t.q()?, t.q()?)),
                    "N" => None,
                    x => return Err(format!("expected P/N, got {x}")),
                };
                let n = t.usize()?;
                let mut legs = Vec::new();
                for _ in 0..n {
                    let sell_date = t.date()?;
                    let rule = t.next()?.to_string();
                    let qty = t.q()?;
                    let cost = t.q()?;
                    let gross = t.q()?;
                    let net = t.q()?;
                    let gain = t.q()?;
                    let a = t.next()?;
                    let acq = if a == "-" { None } else { Some(pdate(a).ok_or("bad acq date")?) };
                    legs.push(RLeg { sell_date, rule, qty, cost, gross: Some(gross), net: Some(net), gain, acq });
                }
                out.push(RMatchT { ticker, pool, legs });
            }
            Ok(Ok(out))
        }
        x => Err(format!("driver said: {x} (request rejected?)")),
    }
}

pub fn parse_report(resp: &str) -> Result<Out<RRep>, String> {
    let mut t = Toks { t: resp.split(' ').filter(|s| !s.is_empty()).collect(), i: 0 };
    match t.next()? {
        "err" => Ok(Err(parse_err(&mut t)?)),
        "ok" => {
            let mut years = Vec::new();
            let mut holdings = Vec::new();
            while let Some(tok) = t.peek() {
                t.next()?;
                match tok {
                    "Y" => {
                        let year: i64 = t.next()?.parse().map_err(|_| "bad year")?;
                        let (gain, loss, net, exempt, taxable, div_income, div_tax) = (t.q()?, t.q()?, t.q()?, t.q()?, t.q()?, t.q()?, t.q()?);
                        let nd = t.usize()?;
                        let mut disposals = Vec::new();
                        for _ in 0..nd {
                            if t.next()? != "D" { return Err("expected D".into()); }
                            let date = t.date()?;
                            let ticker = t.next()?.to_string();
                            let (qty, gross, proceeds) = (t.q()?, t.q()?, t.q()?);
                            let nl = t.usize()?;
                            let mut legs = Vec::new();
                            for _ in 0..nl {
                                if t.next()? != "M" { return Err("expected M".into()); }
                                let rule = t.next()?.to_string();
                                let (q, cost, gain) = (t.q()?, t.q()?, t.q()?);
                                let a = t.next()?;
                                let acq = if a == "-" { None } else { Some(pdate(a).ok_or("bad acq date")?) };
                                legs.push(RLeg { sell_date: date, rule, qty: q, cost, gross: None, net: None, gain, acq });
                            }
                            disposals.push(RDisp { date, ticker, qty, gross, proceeds, legs });
                        }
                        years.push(RYear { year, gain, loss, net, exempt, taxable, div_income, div_tax, disposals });
                    }
                    "H" => {
                        let ticker = t.next()?.to_string();
                        holdings.push((ticker, t.q()?, t.q()?));
                    }
                    x => return Err(format!("unexpected token {x}")),
                }
            }
            Ok(Ok(RRep { years, holdings }))
        }
        x => Err(format!("driver said: {x} (request rejected?)")),
    }
}

/// classify the implementation's error into the model's small enum
pub fn classify_err(e: &CgtError) -> RErr {
    let msg = e.to_string();
    match e {
        CgtError::InvalidTransaction(m) => {
            let grab = |m: &str| -> String {
                // "<VERB> <TICKER> on <DATE>..." → "<TICKER> <DATE>"
                let w: Vec<&str> = m.split_whitespace().collect();
                if let Some(pos) = w.iter().position(|x| *x == "on") {
                    let tk = w.get(pos.wrapping_sub(1)).copied().unwrap_or("?");
                    let dt = w.get(pos + 1).copied().unwrap_or("?").trim_end_matches(':');
                    format!("{tk} {dt}")
                } else {
                    "? ?".to_string()
                }
            };
            let kind = if m.contains("exceeds holding of") {
                "exceedsHolding"
            } else if m.contains("has no prior acquisitions") {
                "noPriorAcquisition"
            } else if m.contains("exceeds holding: attempted") {
                "unmatched"
            } else if m.contains("B&B reservation exceeds") {
                "reservationExceedsBuy"
            } else if m.starts_with("CAPRETURN") && m.contains("exceeds") {
                "capReturnExceedsCost"
            } else {
                "otherInvalidTransaction"
            };
            let detail = if kind == "reservationExceedsBuy" {
                // "B&B reservation exceeds buy amount for T on D"
                let w: Vec<&str> = m.split_whitespace().collect();
                let n = w.len();
                if n >= 3 { format!("{} {}", w[n - 3], w[n - 1]) } else { "? ?".into() }
            } else {
                grab(m)
            };
            RErr { kind: kind.to_string(), detail }
        }
        CgtError::UnsupportedExemptionYear(y) => RErr { kind: "unsupportedExemptionYear".into(), detail: y.to_string() },
        CgtError::InvalidTaxYear(y) => RErr { kind: "invalidTaxYear".into(), detail: y.to_string() },
        CgtError::InvalidDateYear { year } => RErr { kind: "invalidDateYear".into(), detail: year.to_string() },
        CgtError::MissingFxRate { currency, year, month } => RErr { kind: "missingFxRate".into(), detail: format!("{currency} {year} {month}") },
        _ => RErr { kind: "other".into(), detail: msg },
    }
}

pub fn from_report(r: &TaxReport) -> RRep {
    let years = r
        .tax_years
        .iter()
        .map(|y| RYear {
            year: y.period.start_year() as i64,
            gain: Q::from_dec(y.total_gain),
            loss: Q::from_dec(y.total_loss),
            net: Q::from_dec(y.net_gain),
            exempt: Q::from_dec(y.exempt_amount),
            taxable: Q::from_dec(y.taxable_gain(y.exempt_amount)),
            div_income: Q::from_dec(y.dividend_income),
            div_tax: Q::from_dec(y.dividend_tax_paid),
            disposals: y
                .disposals
                .iter()
                .map(|d| RDisp {
                    date: d.date,
                    ticker: d.ticker.clone(),
                    qty: Q::from_dec(d.quantity),
                    gross: Q::from_dec(d.gross_proceeds),
                    proceeds: Q::from_dec(d.proceeds),
                    legs: d
                        .matches
                        .iter()
                        .map(|m| RLeg {
                            sell_date: d.date,
                            rule: rule_name(&m.rule).to_string(),
                            qty: Q::from_dec(m.quantity),
                            cost: Q::from_dec(m.allowable_cost),
                            gross: None,
                            net: None,
                            gain: Q::from_dec(m.gain_or_loss),
                            acq: m.acquisition_date,
                        })
                        .collect(),
                })
                .collect(),
        })
        .collect();
    let holdings = r.holdings.iter().map(|h| (h.ticker.clone(), Q::from_dec(h.quantity), Q::from_dec(h.total_cost))).collect();
    RRep { years, holdings }
}

pub fn from_matches(
    res: &(Vec<cgt_core::matcher::MatchResult>, std::collections::HashMap<String, cgt_core::Section104Holding>),
) -> Vec<RMatchT> {
    let mut by: BTreeMap<String, RMatchT> = BTreeMap::new();
    for m in &res.0 {
        let e = by.entry(m.disposal_ticker.clone()).or_insert_with(|| RMatchT { ticker: m.disposal_ticker.clone(), pool: None, legs: vec![] });
        e.legs.push(RLeg {
            sell_date: m.disposal_date,
            rule: rule_name(&m.match_detail.rule).to_string(),
            qty: Q::from_dec(m.match_detail.quantity),
            cost: Q::from_dec(m.match_detail.allowable_cost),
            gross: Some(Q::from_dec(m.gross_proceeds)),
            net: Some(Q::from_dec(m.proceeds)),
            gain: Q::from_dec(m.match_detail.gain_or_loss),
            acq: m.match_detail.acquisition_date,
        });
    }
    for (t, p) in &res.1 {
        let e = by.entry(t.clone()).or_insert_with(|| RMatchT { ticker: t.clone(), pool: None, legs: vec![] });
        e.pool = Some((Q::from_dec(p.quantity), Q::from_dec(p.total_cost)));
    }
    by.into_values().collect()
}

// ---------------------------------------------------------------------------------------
// projected comparison

#[derive(Clone, Copy, Debug)]
pub struct Proj {
    /// compare allowable costs, proceeds, gains, totals
    pub money: bool,
    /// compare quantities
    pub qty: bool,
    /// compare the leg lists leg by leg (rule, acquisition date, order); otherwise legs are summed
    /// per (rule, acquisition date) within each disposal
    pub legs_exact: bool,
    /// compare holdings
    pub holdings: bool,
    /// compare error detail (ticker/date) and not only accept/reject + kind
    pub err_detail: bool,
    /// compare only the per-disposal-day totals of the legs (quantity; money if `money`), not rules
    pub legs_day_totals: bool,
    /// do not compare legs at all
    pub legs_none: bool,
}
impl Proj {
    pub fn full() -> Proj {
        Proj { money: true, qty: true, legs_exact: true, holdings: true, err_detail: true, legs_day_totals: false, legs_none: false }
    }
}

fn qdiff(what: &str, a: &Q, b: &Q) -> Option<String> {
    if a.close(b, TOL_EXP) { None } else { Some(format!("{what}: impl {} vs model {}", a.approx(), b.approx())) }
}

/// legs summed per (rule, acquisition date), in first-appearance order
pub fn fold_legs(legs: &[RLeg]) -> Vec<RLeg> {
    let mut out: Vec<RLeg> = Vec::new();
    for l in legs {
        if let Some(x) = out.iter_mut().find(|x| x.rule == l.rule && x.acq == l.acq && x.sell_date == l.sell_date) {
            x.qty = x.qty.add(&l.qty);
            x.cost = x.cost.add(&l.cost);
            x.gain = x.gain.add(&l.gain);
            x.gross = match (&x.gross, &l.gross) { (Some(a), Some(b)) => Some(a.add(b)), _ => None };
            x.net = match (&x.net, &l.net) { (Some(a), Some(b)) => Some(a.add(b)), _ => None };
        } else {
            out.push(l.clone());
        }
    }
    out
}

/// legs summed per disposal day (rule and acquisition date forgotten)
pub fn day_totals(legs: &[RLeg]) -> Vec<RLeg> {
    let mut out: Vec<RLeg> = Vec::new();
    for l in legs {
        if let Some(x) = out.iter_mut().find(|x| x.sell_date == l.sell_date) {
            x.qty = x.qty.add(&l.qty);
            x.cost = x.cost.add(&l.cost);
            x.gain = x.gain.add(&l.gain);
            x.gross = match (&x.gross, &l.gross) { (Some(a), Some(b)) => Some(a.add(b)), _ => None };
            x.net = match (&x.net, &l.net) { (Some(a), Some(b)) => Some(a.add(b)), _ => None };
        } else {
            let mut c = l.clone();
            c.rule = "*".into();
            c.acq = None;
            out.push(c);
        }
    }
    out
}

pub fn diff_legs(ctx: &str, a: &[RLeg], b: &[RLeg], p: &Proj) -> Option<String> {
    if p.legs_none { return None; }
    if p.legs_day_totals {
        let mut q = *p;
        q.legs_day_totals = false;
        q.legs_exact = true;
        return diff_legs(ctx, &day_totals(a), &day_totals(b), &q);
    }
    let (a, b) = if p.legs_exact { (a.to_vec(), b.to_vec()) } else { (fold_legs(a), fold_legs(b)) };
    if a.len() != b.len() {
        return Some(format!("{ctx}: impl has {} legs, model {}", a.len(), b.len()));
    }
    for (i, (x, y)) in a.iter().zip(b.iter()).enumerate() {
        let c = format!("{ctx} leg {i}");
        if x.sell_date != y.sell_date { return Some(format!("{c}: disposal date impl {} vs model {}", x.sell_date, y.sell_date)); }
        if x.rule != y.rule { return Some(format!("{c}: rule impl {} vs model {}", x.rule, y.rule)); }
        if x.acq != y.acq { return Some(format!("{c}: acquisition date impl {:?} vs model {:?}", x.acq, y.acq)); }
        if p.qty { if let Some(d) = qdiff(&format!("{c} quantity"), &x.qty, &y.qty) { return Some(d); } }
        if p.money {
            if let Some(d) = qdiff(&format!("{c} allowable cost"), &x.cost, &y.cost) { return Some(d); }
            // per-rule proceeds and gains depend on which SELL line of the day a leg came from;
            // when legs are folded only quantities and costs are comparable per rule (the
            // disposal's totals are compared at disposal level)
            if !p.legs_exact { continue; }
            if let Some(d) = qdiff(&format!("{c} gain"), &x.gain, &y.gain) { return Some(d); }
            if let (Some(g1), Some(g2)) = (&x.gross, &y.gross) { if let Some(d) = qdiff(&format!("{c} gross"), g1, g2) { return Some(d); } }
            if let (Some(g1), Some(g2)) = (&x.net, &y.net) { if let Some(d) = qdiff(&format!("{c} net"), g1, g2) { return Some(d); } }
        }
    }
    None
}

pub fn diff_err(a: &RErr, b: &RErr, p: &Proj) -> Option<String> {
    if a.kind != b.kind { return Some(format!("error kind: impl {} ({}) vs model {} ({})", a.kind, a.detail, b.kind, b.detail)); }
    if p.err_detail && a.detail != b.detail { return Some(format!("error {}: impl names '{}', model '{}'", a.kind, a.detail, b.detail)); }
    None
}

pub fn diff_match(a: &Out<Vec<RMatchT>>, b: &Out<Vec<RMatchT>>, p: &Proj) -> Option<String> {
    match (a, b) {
        (Err(x), Err(y)) => diff_err(x, y, p),
        (Err(x), Ok(_)) => Some(format!("impl rejects ({} {}), model accepts", x.kind, x.detail)),
        (Ok(_), Err(y)) => Some(format!("impl accepts, model rejects ({} {})", y.kind, y.detail)),
        (Ok(x), Ok(y)) => {
            // a security with neither legs nor a pool has no output on either side
            let x: Vec<&RMatchT> = x.iter().filter(|t| t.pool.is_some() || !t.legs.is_empty()).collect();
            let y: Vec<&RMatchT> = y.iter().filter(|t| t.pool.is_some() || !t.legs.is_empty()).collect();
            if x.len() != y.len() {
                return Some(format!("securities with output: impl {:?} vs model {:?}", x.iter().map(|t| &t.ticker).collect::<Vec<_>>(), y.iter().map(|t| &t.ticker).collect::<Vec<_>>()));
            }
            for (s, t) in x.iter().zip(y.iter()) {
                if s.ticker != t.ticker { return Some(format!("ticker impl {} vs model {}", s.ticker, t.ticker)); }
                if let Some(d) = diff_legs(&s.ticker, &s.legs, &t.legs, p) { return Some(d); }
                if p.holdings {
                    match (&s.pool, &t.pool) {
                        (None, None) => {}
                        (Some((q1, c1)), Some((q2, c2))) => {
                            if p.qty { if let Some(d) = qdiff(&format!("{} pool quantity", s.ticker), q1, q2) { return Some(d); } }
                            if p.money { if let Some(d) = qdiff(&format!("{} pool cost", s.ticker), c1, c2) { return Some(d); } }
                        }
                        (x1, y1) => {
                            // an empty pool and no pool are the same holding unless the projection is the full one
                            let q = x1.as_ref().or(y1.as_ref()).map(|p| p.0.clone()).unwrap_or_else(Q::zero);
                            if p.legs_exact && p.money || !q.is_zero() {
                                return Some(format!("{} pool presence impl {:?} vs model {:?}", s.ticker, x1.is_some(), y1.is_some()));
                            }
                        }
                    }
                }
            }
            None
        }
    }
}

pub fn diff_report(a: &Out<RRep>, b: &Out<RRep>, p: &Proj) -> Option<String> {
    match (a, b) {
        (Err(x), Err(y)) => diff_err(x, y, p),
        (Err(x), Ok(_)) => Some(format!("impl rejects ({} {}), model accepts", x.kind, x.detail)),
        (Ok(_), Err(y)) => Some(format!("impl accepts, model rejects ({} {})", y.kind, y.detail)),
        (Ok(x), Ok(y)) => {
            if x.years.len() != y.years.len() || x.years.iter().zip(&y.years).any(|(s, t)| s.year != t.year) {
                return Some(format!("tax years impl {:?} vs model {:?}", x.years.iter().map(|t| t.year).collect::<Vec<_>>(), y.years.iter().map(|t| t.year).collect::<Vec<_>>()));
            }
            for (s, t) in x.years.iter().zip(&y.years) {
                let c = format!("year {}", s.year);
                if p.money {
                    for (n, u, v) in [("total gain", &s.gain, &t.gain), ("total loss", &s.loss, &t.loss), ("net gain", &s.net, &t.net), ("exemption", &s.exempt, &t.exempt), ("taxable", &s.taxable, &t.taxable), ("dividend income", &s.div_income, &t.div_income), ("dividend tax", &s.div_tax, &t.div_tax)] {
                        if let Some(d) = qdiff(&format!("{c} {n}"), u, v) { return Some(d); }
                    }
                }
                if s.disposals.len() != t.disposals.len() {
                    return Some(format!("{c}: impl has {} disposals, model {}", s.disposals.len(), t.disposals.len()));
                }
                for (ds, dt) in s.disposals.iter().zip(&t.disposals) {
                    if ds.date != dt.date || ds.ticker != dt.ticker {
                        return Some(format!("{c}: disposal order impl {} {} vs model {} {}", ds.date, ds.ticker, dt.date, dt.ticker));
                    }
                    let dc = format!("{} {}", ds.date, ds.ticker);
                    if p.qty { if let Some(d) = qdiff(&format!("{dc} quantity"), &ds.qty, &dt.qty) { return Some(d); } }
                    if p.money {
                        if let Some(d) = qdiff(&format!("{dc} gross proceeds"), &ds.gross, &dt.gross) { return Some(d); }
                        if let Some(d) = qdiff(&format!("{dc} proceeds"), &ds.proceeds, &dt.proceeds) { return Some(d); }
                    }
                    if let Some(d) = diff_legs(&dc, &ds.legs, &dt.legs, p) { return Some(d); }
                }
            }
            if p.holdings {
                if x.holdings.len() != y.holdings.len() {
                    return Some(format!("holdings impl {:?} vs model {:?}", x.holdings.iter().map(|h| &h.0).collect::<Vec<_>>(), y.holdings.iter().map(|h| &h.0).collect::<Vec<_>>()));
                }
                for (s, t) in x.holdings.iter().zip(&y.holdings) {
                    if s.0 != t.0 { return Some(format!("holding order impl {} vs model {}", s.0, t.0)); }
                    if p.qty { if let Some(d) = qdiff(&format!("holding {} quantity", s.0), &s.1, &t.1) { return Some(d); } }
                    if p.money { if let Some(d) = qdiff(&format!("holding {} cost", s.0), &s.2, &t.2) { return Some(d); } }
                }
            }
            None
        }
    }
}
