#!/bin/bash
# seedall.sh [pattern] : run every stored seeded change against its own property's quick check (regression of
# the checks' sensitivity). Mutates /repo while it runs (applies and undoes each patch); one line per seed.
cd /verif
for d in seeded/${1:-C}*; do
  s=$(basename $d); P=${s%%-*}
  res=$(tools/seedtest.sh $s $P 2>&1 | grep -E "^VIOLATION|^OK" | head -1 | cut -c1-110)
  echo "$s: ${res:-NO-RESULT}"
done
