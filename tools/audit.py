#!/usr/bin/env python3
"""Audit of the proof side for one property: forbidden constructs, existence of every obligation's
theorem, the axioms each depends on (#print axioms), and leanchecker on the property module."""
import json, os, re, subprocess, sys

LEAN = "/verif/lean"
ALLOWED = {"propext", "Classical.choice", "Quot.sound"}
FORBIDDEN = [r"\bsorry\b", r"\badmit\b", r"^\s*axiom\s", r"\bnative_decide\b", r"\bbv_decide\b",
             r"\bimplemented_by\b", r"\bunsafe\s", r"maxHeartbeats\s+0\b", r"\bpartial\s+def\b(?!\s+loop)"]

def strip_comments(src):
    # remove /- ... -/ (nested) and -- comments
    out, i, depth = [], 0, 0
    while i < len(src):
        if src.startswith("/-", i):
            depth += 1; i += 2; continue
        if depth and src.startswith("-/", i):
            depth -= 1; i += 2; continue
        if depth:
            if src[i] == "\n": out.append("\n")
            i += 1; continue
        if src.startswith("--", i):
            while i < len(src) and src[i] != "\n": i += 1
            continue
        out.append(src[i]); i += 1
    return "".join(out)

def forbidden_hits():
    hits = []
    for root, _, files in os.walk(LEAN):
        if ".lake" in root: continue
        for fn in files:
            if not fn.endswith(".lean"): continue
            p = os.path.join(root, fn)
            code = strip_comments(open(p, encoding="utf-8").read())
            # string literals may legitimately contain words; drop them
            code = re.sub(r'"(?:[^"\\]|\\.)*"', '""', code)
            for ln, line in enumerate(code.split("\n"), 1):
                for pat in FORBIDDEN:
                    if re.search(pat, line):
                        hits.append(f"{os.path.relpath(p, LEAN)}:{ln}: {line.strip()[:120]}")
    return hits

def main():
    prop = sys.argv[1]
    fresh = "--fresh" in sys.argv
    obligations = json.load(open("/verif/obligations.json"))[prop]
    names = [o["theorem"] for o in obligations]
    os.makedirs("/verif/build", exist_ok=True)
    src = f"import CgtModel.Props.{prop}\n" + "".join(f"#print axioms {n}\n" for n in names)
    path = f"/verif/build/audit_{prop}.lean"
    open(path, "w").write(src)
    r = subprocess.run(["lake", "env", "lean", path], cwd=LEAN, capture_output=True, text=True)
    text = r.stdout + r.stderr
    results = []
    for n in names:
        m = re.search(r"'" + re.escape(n) + r"' depends on axioms: \[([^\]]*)\]", text, re.S)
        if m:
            ax = [a.strip() for a in m.group(1).replace("\n", " ").split(",") if a.strip()]
            results.append({"theorem": n, "axioms": ax, "ok": set(ax) <= ALLOWED})
        elif re.search(r"'" + re.escape(n) + r"' does not depend on any axioms", text):
            results.append({"theorem": n, "axioms": [], "ok": True})
        else:
            results.append({"theorem": n, "axioms": None, "ok": False, "error": "theorem not found or file does not check"})
    hits = forbidden_hits()
    cmd = ["lake", "env", "leanchecker"] + (["--fresh"] if fresh else []) + [f"CgtModel.Props.{prop}"]
    lc = subprocess.run(cmd, cwd=LEAN, capture_output=True, text=True)
    out = {
        "property": prop,
        "theorems": results,
        "forbidden_hits": hits,
        "leanchecker_cmd": " ".join(cmd),
        "leanchecker_rc": lc.returncode,
        "leanchecker_out": (lc.stdout + lc.stderr)[-2000:],
        "lean_out_tail": text[-1500:] if any(not x["ok"] for x in results) else "",
        "ok": all(x["ok"] for x in results) and not hits and lc.returncode == 0,
    }
    json.dump(out, open(f"/verif/build/audit_{prop}.json", "w"), indent=1)
    print(f"audit {prop}: {sum(1 for x in results if x['ok'])}/{len(results)} theorems ok, {len(hits)} forbidden hits, leanchecker rc {lc.returncode}")
    sys.exit(0 if out["ok"] else 1)

if __name__ == "__main__":
    main()
