#!/usr/bin/env python3
"""Translator for constants and tables: /repo sources -> lean/CgtModel/Generated.lean.

Every value is read with an anchored pattern; a missing anchor is an error (exit 2), never a default.
The file is rewritten only when its content changes, so that lake's incremental build stays warm."""
import re, sys, os

REPO = os.environ.get("CGT_REPO", "/repo")
OUT = os.environ.get("CGT_GENERATED", "/verif/lean/CgtModel/Generated.lean")

class Missing(Exception):
    pass

def read(rel):
    p = os.path.join(REPO, rel)
    try:
        return open(p, encoding="utf-8").read()
    except OSError as e:
        raise Missing(f"{rel}: cannot read ({e})")

def one(rel, pattern, flags=0, what=None):
    m = re.search(pattern, read(rel), flags)
    if not m:
        raise Missing(f"{rel}: anchor not found for {what or pattern}")
    return m

def all_same(values, what):
    if len(set(values)) != 1:
        raise Missing(f"{what}: sites disagree: {values}")
    return values[0]

def lean_str(s):
    return '"' + s.replace('\\', '\\\\').replace('"', '\\"') + '"'


# ---------------------------------------------------------------------------------------------
# a small translator for arithmetic: Rust expressions over Decimal -> Lean expressions over Rat.
# Handles identifiers (with `*` deref, `.field`, `self.`, `name()` mapped through `env`), `Decimal::ZERO`,
# `+ - * /`, parentheses, `.min(e)` / `.max(e)`, and `if a != Decimal::ZERO { e1 } else { e2 }`.
# Anything else is an error: the expression is then not what the model's formula was proved equal to.
class _Expr:
    def __init__(self, text, env, where):
        self.toks = re.findall(r"Decimal::ZERO|Decimal::ONE|[A-Za-z_][A-Za-z_0-9]*(?:\(\))?|\d+|!=|==|[-+*/().{}]", text)
        if "".join(self.toks) != re.sub(r"\s+", "", text):
            raise Missing(f"{where}: expression not in the translatable fragment: {text.strip()!r}")
        self.i = 0; self.env = env; self.where = where; self.text = text.strip()
    def peek(self):
        return self.toks[self.i] if self.i < len(self.toks) else None
    def eat(self, t=None):
        x = self.peek()
        if x is None or (t is not None and x != t):
            raise Missing(f"{self.where}: cannot translate {self.text!r} (at token {self.i}: {x!r}, wanted {t!r})")
        self.i += 1
        return x
    def parse(self):
        e = self.expr()
        if self.peek() is not None:
            raise Missing(f"{self.where}: trailing tokens in {self.text!r}")
        return e
    def expr(self):
        if self.peek() == "if":
            self.eat("if"); a = self.sum(); op = self.eat()
            if op not in ("!=", "=="):
                raise Missing(f"{self.where}: condition of {self.text!r} is not a comparison with zero")
            z = self.sum()
            self.eat("{"); e1 = self.expr(); self.eat("}"); self.eat("else"); self.eat("{"); e2 = self.expr(); self.eat("}")
            return f"(if {a} {'≠' if op == '!=' else '='} {z} then {e1} else {e2})"
        return self.sum()
    def sum(self):
        e = self.term()
        while self.peek() in ("+", "-"):
            op = self.eat(); r = self.term(); e = f"({e} {op} {r})"
        return e
    def term(self):
        e = self.factor()
        while self.peek() in ("*", "/"):
            op = self.eat(); r = self.factor(); e = f"({e} {op} {r})"
        return e
    def factor(self):
        t = self.peek()
        if t == "*":            # deref
            self.eat("*"); return self.factor()
        if t == "(":
            self.eat("("); e = self.expr(); self.eat(")")
        elif t == "Decimal::ZERO":
            self.eat(); e = "0"
        elif t == "Decimal::ONE":
            self.eat(); e = "1"
        elif t is not None and re.fullmatch(r"\d+", t):
            e = self.eat()
        elif t is not None and re.fullmatch(r"[A-Za-z_][A-Za-z_0-9]*(?:\(\))?", t):
            name = self.eat()
            while self.peek() == "." and self.i + 1 < len(self.toks) and self.toks[self.i + 1] not in ("min", "max"):
                self.eat("."); name += "." + self.eat()
            if name not in self.env:
                raise Missing(f"{self.where}: unexpected name {name!r} in {self.text!r}")
            e = self.env[name]
        else:
            raise Missing(f"{self.where}: cannot translate {self.text!r} (at {t!r})")
        while self.peek() == ".":
            self.eat("."); m = self.eat()
            if m not in ("min", "max"):
                raise Missing(f"{self.where}: method {m!r} in {self.text!r}")
            self.eat("("); a = self.expr(); self.eat(")")
            e = f"({m} {e} {a})"
        return e

def rust_expr(text, env, where):
    return _Expr(text, env, where).parse()

def fn_body(rel, name):
    src = read(rel).split("#[cfg(test)]")[0]
    m = re.search(r"fn " + re.escape(name) + r"\s*(?:<[^>]*>)?\(", src)
    if not m:
        raise Missing(f"{rel}: fn {name} not found")
    i = src.find("{", m.end())
    depth = 0
    for j in range(i, len(src)):
        if src[j] == "{": depth += 1
        elif src[j] == "}":
            depth -= 1
            if depth == 0:
                return src[i:j + 1]
    raise Missing(f"{rel}: fn {name}: unbalanced braces")

def stmt(body, pattern, where):
    ms = list(re.finditer(pattern, body, re.S))
    if len(ms) != 1:
        raise Missing(f"{where}: expected exactly one statement matching {pattern!r}, found {len(ms)}")
    return ms[0]

GROUPS = {}   # group name -> list of Lean definitions
ERRORS = {}   # group name -> message

def group(name):
    def deco(fn):
        try:
            GROUPS[name] = fn()
        except Missing as e:
            ERRORS[name] = str(e)
        return fn
    return deco

def main():
    models = "crates/cgt-core/src/models.rs"
    calc = "crates/cgt-core/src/calculator.rs"
    bnb = "crates/cgt-core/src/matcher/bed_and_breakfast.rs"

    @group("window")
    def _():
        m = one(bnb, r"const BNB_WINDOW_DAYS: i64 = (\d+);", what="BNB_WINDOW_DAYS")
        # the comparisons that use it: `days_diff > BNB_WINDOW_DAYS` breaks, `days_diff <= 0` skips
        one(bnb, r"if days_diff > BNB_WINDOW_DAYS \{\s*break;", what="window upper test `days_diff > BNB_WINDOW_DAYS`")
        one(bnb, r"if days_diff <= 0 \{\s*continue;", what="window lower test `days_diff <= 0`")
        return [f"def bnbWindowDays : Int := {m.group(1)}"]

    @group("taxyear")
    def _():
        tmin = one(models, r"const MIN_TAX_YEAR: u16 = (\d+);").group(1)
        tmax = one(models, r"const MAX_TAX_YEAR: u16 = (\d+);").group(1)
        m = one(models, r"NaiveDate::from_ymd_opt\(date\.year\(\), (\d+), (\d+)\)", what="tax-year boundary in TaxPeriod::from_date")
        bm, bd = int(m.group(1)), int(m.group(2))
        one(models, r"let start_year = if date < tax_year_boundary \{\s*date\.year\(\) - 1\s*\} else \{\s*date\.year\(\)\s*\};", what="from_date comparison")
        m1 = one(calc, r"from_ymd_opt\(tax_year_start, (\d+), (\d+)\)", what="year filter start")
        m2 = one(calc, r"from_ymd_opt\(tax_year_start \+ 1, (\d+), (\d+)\)", what="year filter end")
        all_same([(bm, bd), (int(m1.group(1)), int(m1.group(2)))], "tax-year start (models.rs vs calculator.rs)")
        if (int(m2.group(1)), int(m2.group(2))) != (bm, bd - 1):
            raise Missing(f"calculator.rs: year filter ends {m2.group(1)}/{m2.group(2)}, expected the day before {bm}/{bd}")
        one(calc, r"m\.disposal_date >= start_date && m\.disposal_date <= end_date", what="inclusive year filter `>= start_date && <= end_date`")
        return [f"def taxYearMin : Int := {tmin}", f"def taxYearMax : Int := {tmax}",
                f"def taxYearStartMonth : Int := {bm}", f"def taxYearStartDay : Int := {bd}"]

    @group("mcp_year")
    def _():
        srv = "crates/cgt-mcp/src/server.rs"
        m = one(srv, r"let year = if date\.month\(\) < (\d+)\s*\|\|\s*\(date\.month\(\) == (\d+) && date\.day\(\) < (\d+)\)\s*\{\s*date\.year\(\) - 1\s*\} else \{\s*date\.year\(\)\s*\};", what="explain_matching tax-year test")
        return [f"def mcpYearMonth : Int := {m.group(1)}", f"def mcpYearMonth2 : Int := {m.group(2)}", f"def mcpYearDay : Int := {m.group(3)}"]

    @group("disposal_round")
    def _():
        dps = re.findall(r"\.round_dp\((\d+)\)", read(calc))
        if len(dps) != 2:
            raise Missing(f"calculator.rs: expected two round_dp sites in group_matches_into_disposals, found {dps}")
        return [f"def disposalRoundDp : Nat := {all_same(dps, 'disposal round_dp')}"]

    @group("exemptions")
    def _():
        toml = read("crates/cgt-core/data/config.toml")
        if "[exemptions]" not in toml:
            raise Missing("config.toml: [exemptions] table not found")
        ex = re.findall(r'(?m)^"(\d{4})"\s*=\s*(\d+)\s*$', toml.split("[exemptions]", 1)[1])
        if not ex:
            raise Missing("config.toml: no exemption rows")
        # get_exemption: absent year is an error, never a default
        one("crates/cgt-core/src/config.rs", r"\.get\(&year\)\s*\.copied\(\)\s*\.ok_or\(CgtError::UnsupportedExemptionYear\(year\)\)", what="get_exemption")
        return ["def exemptions : List (Int × Rat) := [" + ", ".join(f"({y}, {v})" for y, v in ex) + "]"]

    @group("money_round")
    def _():
        m = re.findall(r"round_dp_with_strategy\(\s*(\d+),\s*(?:rust_decimal::)?RoundingStrategy::(\w+)\s*\)|\.round_dp\((\d+)\)", read(models).split("mod decimal_money", 1)[1].split("/// Deserialize Operation", 1)[0])
        if len(m) != 2:
            raise Missing(f"models.rs: decimal_money: expected two rounding sites, found {m}")
        sites = [(a or c, b or "MidpointNearestEven") for a, b, c in m]
        dp, strat = all_same(sites, "decimal_money rounding")
        fmt = read("crates/cgt-format/src/lib.rs")
        m2 = re.search(r"pub fn format_gbp\(value: Decimal\) -> String \{\s*format_with_symbol_and_precision\(value, '£', (\d+)\)", fmt)
        if not m2:
            raise Missing("cgt-format/src/lib.rs: format_gbp anchor not found")
        strats = re.findall(r"round_dp_with_strategy\(\w+, RoundingStrategy::(\w+)\)", fmt)
        if len(strats) < 2:
            raise Missing(f"cgt-format/src/lib.rs: rounding strategy sites not found ({strats})")
        strat2 = all_same(strats, "cgt-format rounding strategy")
        return [f"def jsonMoneyDp : Nat := {dp}",
                f"def jsonMoneyHalfAway : Bool := {'true' if strat == 'MidpointAwayFromZero' else 'false'}",
                f"def displayMoneyDp : Nat := {m2.group(1)}",
                f"def displayMoneyHalfAway : Bool := {'true' if strat2 == 'MidpointAwayFromZero' else 'false'}"]

    @group("pdf_round")
    def _():
        lib = read("crates/cgt-formatter-pdf/src/lib.rs")
        typ = read("crates/cgt-formatter-pdf/src/templates/report.typ")
        # figures reach the template as Typst's exact decimal type (round-half-away on decimals) …
        exact = bool(re.search(r"fn decimal_to_value\(value: Decimal\) -> Result<Value, PdfError> \{\s*value\s*\.to_string\(\)\s*\.parse::<typst::foundations::Decimal>\(\)", lib))
        if not exact and not re.search(r"fn decimal_to_value", lib):
            raise Missing("cgt-formatter-pdf/src/lib.rs: decimal_to_value not found")
        if re.search(r"\.to_f64\(\)|as f64", lib.split("#[cfg(test)]")[0]):
            exact = False
        # … and fmt-money rounds them to 2 digits with calc.round
        m = re.search(r"#let fmt-money\(value\) = \{.*?fmt-fixed\(abs, digits: (\d+)\)", typ, re.S)
        if not m or not re.search(r"#let fmt-fixed\(value, digits: 2\) = \{\s*let rounded = calc\.round\(value, digits: digits\)", typ):
            raise Missing("report.typ: fmt-money / fmt-fixed anchors not found")
        q = re.search(r"#let fmt-qty\(value\) = trim-zeros\(fmt-fixed\(value, digits: (\d+)\)\)", typ)
        if not q:
            raise Missing("report.typ: fmt-qty anchor not found")
        return [f"def pdfMoneyExactDecimal : Bool := {'true' if exact else 'false'}",
                f"def pdfMoneyDp : Nat := {m.group(1)}", f"def pdfQtyDp : Nat := {q.group(1)}"]

    @group("grammar")
    def _():
        pest = read("crates/cgt-core/src/parser.pest")
        # rule name -> body with comments and all white space removed
        body = re.sub(r"//[^\n]*", "", pest)
        rules = {}
        for m in re.finditer(r"(?ms)^(\w+)\s*=\s*([_@$!]?)\{(.*?)\}\s*(?=^\w+\s*=|\Z)", body):
            rules[m.group(1)] = m.group(2) + "{" + re.sub(r"\s+", "", m.group(3)) + "}"
        # the shapes the Lean reader (Dsl.lean) is a transcription of
        expected = {
            "transaction_list": "{SOI~(line~NEWLINE)*~line?~EOI}",
            "line": '_{transaction|COMMENT|""}',
            "transaction": "{date~command}",
            "command": "{cmd_buy|cmd_sell|cmd_dividend|cmd_accumulation|cmd_capreturn|cmd_split|cmd_unsplit}",
            "cmd_buy": '{^"BUY"~ticker~quantity~price~fees?}',
            "cmd_sell": '{^"SELL"~ticker~quantity~price~fees?}',
            "cmd_dividend": '{^"DIVIDEND"~ticker~total_value~tax?}',
            "cmd_accumulation": '{^"ACCUMULATION"~ticker~quantity~total_value~tax?}',
            "cmd_capreturn": '{^"CAPRETURN"~ticker~quantity~total_value~fees?}',
            "cmd_split": '{^"SPLIT"~ticker~ratio_value}',
            "cmd_unsplit": '{^"UNSPLIT"~ticker~ratio_value}',
            "price": '{"@"~money}',
            "total_value": '{^"TOTAL"~money}',
            "fees": '{^"FEES"~money}',
            "tax": '{^"TAX"~money}',
            "ratio_value": '{^"RATIO"~ratio}',
            "money": "{decimal~currency_code?}",
            "date": '@{ASCII_DIGIT{4}~"-"~ASCII_DIGIT{2}~"-"~ASCII_DIGIT{2}}',
            "ticker": "@{ASCII_ALPHANUMERIC+}",
            "quantity": "@{decimal}",
            "ratio": "@{decimal}",
            "decimal": '@{ASCII_DIGIT+~("."~ASCII_DIGIT+)?}',
            "WHITESPACE": '_{""|"\\t"}',
            "COMMENT": '_{"#"~(!NEWLINE~ANY)*}',
            "NEWLINE": '_{"\\r\\n"|"\\n"|"\\r"}',
        }
        for name, want in expected.items():
            got = rules.get(name)
            if name == "WHITESPACE" and got is not None:
                got = got.replace('" "', '""')  # the blank was removed with the white space
            if got != want:
                raise Missing(f"parser.pest: rule {name} is {got!r}, the Lean reader transcribes {want!r}")
        extra = set(rules) - set(expected) - {"currency_code"}
        if extra:
            raise Missing(f"parser.pest: rules the Lean reader does not know: {sorted(extra)}")
        cc = rules.get("currency_code") or ""
        m = re.fullmatch(r'@\{!\((.*?)\)~ASCII_ALPHA\{3\}~!\(ASCII_ALPHANUMERIC\|"-"\)\}', cc)
        if not m:
            raise Missing(f"parser.pest: currency_code is {cc!r}: not `!(keywords) ~ ASCII_ALPHA{{3}} ~ !(ASCII_ALPHANUMERIC | \"-\")`")
        kws = m.group(1).split("|")
        parsed = [re.fullmatch(r'(\^?)"([A-Z]+)"', k) for k in kws]
        if not all(parsed):
            raise Missing(f"parser.pest: currency_code guard {m.group(1)!r} is not a list of keyword literals")
        ci = {bool(x.group(1)) for x in parsed}
        if len(ci) != 1:
            raise Missing("parser.pest: currency_code guard mixes case-sensitive and case-insensitive keywords")
        return ["def dslGuardKeywords : List String := [" + ", ".join('"' + x.group(2) + '"' for x in parsed) + "]",
                f"def dslGuardCaseInsensitive : Bool := {'true' if ci.pop() else 'false'}"]

    @group("writer")
    def _():
        src = read("crates/cgt-core/src/dsl.rs").split("#[cfg(test)]")[0]
        norm = re.sub(r"\s+", "", src)
        m = re.search(r'letdate=tx\.date\.format\("([^"]*)"\);', norm)
        if not m:
            raise Missing("dsl.rs: `let date = tx.date.format(\"…\")` not found")
        datefmt = m.group(1)
        # one arm per operation: head format + arguments, optional clause keyword + the field it prints
        arms = {
            "Buy": ('"{}BUY{}{}@{}",date,tx.ticker,amount,format_amount(price)', "fees", "FEES"),
            "Sell": ('"{}SELL{}{}@{}",date,tx.ticker,amount,format_amount(price)', "fees", "FEES"),
            "Dividend": ('"{}DIVIDEND{}TOTAL{}",date,tx.ticker,format_amount(total_value)', "tax_paid", "TAX"),
            "Accumulation": ('"{}ACCUMULATION{}{}TOTAL{}",date,tx.ticker,amount,format_amount(total_value)', "tax_paid", "TAX"),
            "CapReturn": ('"{}CAPRETURN{}{}TOTAL{}",date,tx.ticker,amount,format_amount(total_value)', "fees", "FEES"),
        }
        for op, (head, fld, kw) in arms.items():
            want = f'letmutline=format!({head});if!{fld}.amount.is_zero(){{line.push_str(&format!("{kw}{{}}",format_amount({fld})));}}line'
            i = norm.find(f"Operation::{op}{{")
            j = norm.find("Operation::", i + 5)
            seg = norm[i:j if j > 0 else len(norm)]
            if want not in seg:
                raise Missing(f"dsl.rs: the {op} arm is not the one the Lean writer transcribes")
        for op, kw in (("Split", "SPLIT"), ("Unsplit", "UNSPLIT")):
            if f'Operation::{op}{{ratio}}=>{{format!("{{}}{kw}{{}}RATIO{{}}",date,tx.ticker,ratio)}}' not in norm:
                raise Missing(f"dsl.rs: the {op} arm is not the one the Lean writer transcribes")
        # blanks inside the format strings (lost by the normalisation above): check the literals themselves
        for lit in ['"{} BUY {} {} @ {}"', '"{} SELL {} {} @ {}"', '"{} DIVIDEND {} TOTAL {}"', '"{} ACCUMULATION {} {} TOTAL {}"',
                    '"{} CAPRETURN {} {} TOTAL {}"', '"{} SPLIT {} RATIO {}"', '"{} UNSPLIT {} RATIO {}"', '" FEES {}"', '" TAX {}"', '"{} {}", amount.amount, amount.code()']:
            if lit not in src:
                raise Missing(f"dsl.rs: literal {lit} not found")
        if '.join("\\n")' not in src:
            raise Missing("dsl.rs: transactions_to_dsl does not join with a newline")
        return [f'def dslDateFormat : String := "{datefmt}"']

    @group("cascade")
    def _():
        # the order in which process_sell tries the identification rules
        src = read("crates/cgt-core/src/matcher/mod.rs").split("#[cfg(test)]")[0]
        i = src.find("fn process_sell(")
        if i < 0:
            raise Missing("matcher/mod.rs: fn process_sell not found")
        j = src.find("\n    fn ", i + 10)
        body = src[i:j if j > 0 else len(src)]
        calls = [(m.start(), m.group(1)) for m in re.finditer(r"(same_day::match_same_day|bed_and_breakfast::match_bed_and_breakfast|section104::match_section_104)\(", body)]
        if len(calls) != 3:
            raise Missing(f"matcher/mod.rs: expected one call of each of the three rules in process_sell, found {[c[1] for c in calls]}")
        names = [c[1].split("::")[0] for c in sorted(calls)]
        return ["def matchCascade : List String := [" + ", ".join(lean_str(n) for n in names) + "]"]

    @group("cli_join")
    def _():
        # how the CLI turns several input files into one text
        src = read("crates/cgt-cli/src/main.rs")
        i = src.find("fn read_and_concatenate_files(")
        if i < 0:
            raise Missing("main.rs: fn read_and_concatenate_files not found")
        j = src.find("\nfn ", i + 10)
        body = re.sub(r"\s+", "", src[i:j if j > 0 else len(src)])
        want = 'letmutcontents=Vec::with_capacity(files.len());forpathinfiles{letcontent=fs::read_to_string(path)?;contents.push(content);}Ok(contents.join("'
        k = body.find(want)
        if k < 0:
            raise Missing("main.rs: read_and_concatenate_files is not `read each file to a string, push, join`")
        m = re.match(r'((?:\\.|[^"\\])*)"\)\)\}$', body[k + len(want):])
        if not m:
            raise Missing("main.rs: read_and_concatenate_files: separator literal not found")
        sep = m.group(1)
        return [f'def cliFileJoin : String := "{sep}"']

    @group("validator")
    def _():
        # every `if <expr> <cmp> Decimal::ZERO { result.errors.push(` of validation.rs, by site
        src = read("crates/cgt-core/src/validation.rs").split("#[cfg(test)]")[0]
        i = src.find("fn check_trade_fields(")
        j = src.find("pub fn validate(")
        if i < 0 or j < 0 or j < i:
            raise Missing("validation.rs: check_trade_fields / validate not found")
        pat = re.compile(r"if\s+([\w\.\*]+)\s*(==|!=|<=|>=|<|>)\s*Decimal::ZERO\s*\{\s*result\.errors\.push")
        rows = [("trade", m.group(1), m.group(2)) for m in pat.finditer(src[i:j])]
        body = src[j:]
        arms = list(re.finditer(r"Operation::(Buy|Sell|Split|Unsplit|Dividend|Accumulation|CapReturn)\s*\{", body))
        if len(arms) != 7:
            raise Missing(f"validation.rs: expected 7 Operation arms in validate, found {len(arms)}")
        for k, a in enumerate(arms):
            seg = body[a.end():arms[k + 1].start() if k + 1 < len(arms) else len(body)]
            name = a.group(1)
            m = re.search(r"check_trade_fields\(.*?amount:\s*\*amount,\s*price(?::\s*(\w+))?,.*?fees,?\s*\}", seg, re.S)
            if m:
                rows.append((name, "check_trade_fields", m.group(1) or "price"))
            rows += [(name, x.group(1), x.group(2)) for x in pat.finditer(seg)]
        n_push = len(re.findall(r"result\.errors\.push", src))
        n_rows = len([r for r in rows if r[1] != "check_trade_fields"])
        if n_push != n_rows:
            raise Missing(f"validation.rs: {n_push} error sites but {n_rows} recognised comparisons")
        items = ", ".join(f"({lean_str(a)}, {lean_str(b)}, {lean_str(c)})" for a, b, c in rows)
        return [f"def validatorChecks : List (String × String × String) := [{items}]"]

    @group("rsu")
    def _():
        aw = "crates/cgt-converter/src/schwab/awards.rs"
        m = one(aw, r"for days_back in (\d+)\.\.=(\d+)", what="RSU look-back loop")
        return [f"def rsuLookbackFrom : Int := {m.group(1)}", f"def rsuLookbackDays : Int := {m.group(2)}"]


    @group("formulas")
    def _():
        out = []
        mod = "crates/cgt-core/src/matcher/mod.rs"
        s104 = "crates/cgt-core/src/matcher/section104.rs"
        sd = "crates/cgt-core/src/matcher/same_day.rs"
        al = "crates/cgt-core/src/matcher/acquisition_ledger.rs"
        # compute_proceeds(matched_qty, sell_qty, sell_price, sell_fees)
        b = fn_body(mod, "compute_proceeds")
        stmt(b, r"if sell_qty == Decimal::ZERO \{\s*return ProportionalProceeds \{\s*gross_proceeds: Decimal::ZERO,\s*fees: Decimal::ZERO,\s*net_proceeds: Decimal::ZERO,\s*\};\s*\}", "compute_proceeds: zero-quantity guard")
        P = "(matched_qty sell_qty sell_price sell_fees : Rat)"
        A = "matched_qty sell_qty sell_price sell_fees"
        env = {k: k for k in A.split()}
        for name in ["proportion", "gross_proceeds", "fees", "net_proceeds"]:
            m = stmt(b, r"let " + name + r" = ([^;]+);", f"compute_proceeds: let {name}")
            out.append(f"def Gen.cp_{name} {P} : Rat := " + rust_expr(m.group(1), env, f"compute_proceeds: {name}"))
            env[name] = f"(Gen.cp_{name} {A})"
        stmt(b, r"ProportionalProceeds \{\s*gross_proceeds,\s*fees,\s*net_proceeds,\s*\}\s*\}$", "compute_proceeds: result record")
        # match_section_104: quantities and costs
        b = fn_body(s104, "match_section_104")
        P = "(remaining pool_quantity pool_total_cost : Rat)"
        A = "remaining pool_quantity pool_total_cost"
        env = {"remaining": "remaining", "pool.quantity": "pool_quantity", "pool.total_cost": "pool_total_cost"}
        for name in ["matched_qty", "unit_cost", "cost"]:
            m = stmt(b, r"let " + name + r" = ((?:[^;{}]|\{[^{}]*\})+);", f"match_section_104: let {name}")
            out.append(f"def Gen.s104_{name} {P} : Rat := " + rust_expr(m.group(1), env, f"match_section_104: {name}"))
            env[name] = f"(Gen.s104_{name} {A})"
        for target, lean in [("pool.quantity", "new_quantity"), ("pool.total_cost", "new_total_cost"), ("*remaining", "new_remaining")]:
            m = stmt(b, re.escape(target) + r" -= ([^;]+);", f"match_section_104: {target} -=")
            base = env[target.lstrip("*")]
            out.append(f"def Gen.s104_{lean} {P} : Rat := ({base} - " + rust_expr(m.group(1), env, f"match_section_104: {target}") + ")")
        m = stmt(b, r"let gain_or_loss = ([^;]+);", "match_section_104: gain")
        out.append("def Gen.s104_gain (net cost : Rat) : Rat := " + rust_expr(m.group(1), {"proceeds.net_proceeds": "net", "cost": "cost"}, "match_section_104: gain"))
        stmt(b, r"rule: MatchRule::Section104,\s*quantity: matched_qty,\s*allowable_cost: cost,\s*gain_or_loss,\s*acquisition_date: None,", "match_section_104: leg fields")
        # match_same_day
        b = fn_body(sd, "match_same_day")
        m = stmt(b, r"let matched_qty = ([^;]+);", "match_same_day: matched_qty")
        out.append("def Gen.sd_matched_qty (remaining available : Rat) : Rat := " + rust_expr(m.group(1), {"remaining": "remaining", "available": "available"}, "match_same_day: matched_qty"))
        m = stmt(b, r"\*remaining -= ([^;]+);", "match_same_day: remaining -=")
        out.append("def Gen.sd_new_remaining (remaining matched_qty : Rat) : Rat := (remaining - " + rust_expr(m.group(1), {"matched_qty": "matched_qty"}, "match_same_day: remaining") + ")")
        m = stmt(b, r"let gain_or_loss = ([^;]+);", "match_same_day: gain")
        out.append("def Gen.sd_gain (net cost : Rat) : Rat := " + rust_expr(m.group(1), {"proceeds.net_proceeds": "net", "cost": "cost"}, "match_same_day: gain"))
        stmt(b, r"if available > Decimal::ZERO && \*remaining > Decimal::ZERO \{", "match_same_day: guard")
        # a lot's figures
        for fname, params, env in [
            ("adjusted_cost", "(base_cost cost_offset : Rat)", {"self.base_cost()": "base_cost", "self.cost_offset": "cost_offset"}),
            ("adjusted_unit_cost", "(adjusted_cost original_amount : Rat)", {"self.adjusted_cost()": "adjusted_cost", "self.original_amount": "original_amount"}),
            ("held_for_adjustment", "(original_amount consumed : Rat)", {"self.original_amount": "original_amount", "self.consumed": "consumed"}),
            ("base_cost", "(original_amount price expenses : Rat)", {"self.original_amount": "original_amount", "self.price": "price", "self.expenses": "expenses"}),
        ]:
            b = fn_body(al, fname)
            inner = b.strip()[1:-1]
            out.append(f"def Gen.lot_{fname} {params} : Rat := " + rust_expr(inner, env, f"acquisition_ledger.rs: {fname}"))
        # apply_cost_adjustment: the share of one lot
        b = fn_body(al, "apply_cost_adjustment")
        stmt(b, r"if total_held == Decimal::ZERO \{\s*return;\s*\}", "apply_cost_adjustment: nothing held")
        stmt(b, r"if held > Decimal::ZERO \{", "apply_cost_adjustment: lots still held only")
        m = stmt(b, r"let apportioned = ([^;]+);", "apply_cost_adjustment: apportioned")
        out.append("def Gen.adj_apportioned (adjustment held total_held : Rat) : Rat := " + rust_expr(m.group(1), {"adjustment": "adjustment", "held": "held", "total_held": "total_held"}, "apply_cost_adjustment"))
        m = stmt(b, r"lot\.cost_offset \+= ([^;]+);", "apply_cost_adjustment: offset +=")
        out.append("def Gen.adj_new_offset (cost_offset apportioned : Rat) : Rat := (cost_offset + " + rust_expr(m.group(1), {"apportioned": "apportioned"}, "apply_cost_adjustment") + ")")
        # preprocess: the three places that merge two trades must all use the same formula
        b = fn_body(mod, "preprocess") + fn_body(mod, "coalesce_same_day_buys")
        sites = []
        pat = re.compile(r"let (total_cost|total_proceeds) =\s*([^;]+);\s*\*(\w+) \+= \*?(\w+);\s*if \*(\w+) != Decimal::ZERO \{\s*\*(\w+) = ([^;]+);\s*\}\s*\*(\w+) \+= \*?(\w+);")
        for m in pat.finditer(b):
            tname, tot, amt, namt, amt2, price, pexpr, fees, nfees = m.groups()
            if amt != amt2:
                raise Missing("preprocess: the merged amount and the tested amount differ")
            nprice = {"next_amount": "next_price"}.get(namt)
            env = {amt: "q", price: "p", namt: "q'", "next_price": "p'"}
            t = rust_expr(tot, env, "preprocess: total_cost")
            pe = rust_expr(pexpr, {tname: "total", amt: "qq"}, "preprocess: merged price")
            sites.append((t, pe, fees.endswith("fees") and nfees.endswith("fees")))
        if len(sites) != 3:
            raise Missing(f"preprocess: expected three merge sites (BUY/BUY, SELL/SELL, coalescing), found {len(sites)}")
        t = all_same([x[0] for x in sites], "preprocess: total cost of a merge")
        pe = all_same([x[1] for x in sites], "preprocess: price of a merge")
        if not all(x[2] for x in sites):
            raise Missing("preprocess: a merge does not add the fees")
        # process_sell: the holding a disposal is tested against
        b = fn_body(mod, "process_sell")
        m = stmt(b, r"let total_held = ([^;]+);", "process_sell: total_held")
        out.append("def Gen.sell_total_held (ledger_held pool_held already_sold : Rat) : Rat := " + rust_expr(m.group(1), {k: k for k in ["ledger_held", "pool_held", "already_sold"]}, "process_sell: total_held"))
        stmt(b, r"if \*amount > total_held \{\s*return Err\(", "process_sell: refusal test `*amount > total_held`")
        # move_buy_to_pool: what is left of the day's purchase joins the pool
        b = fn_body(mod, "move_buy_to_pool")
        stmt(b, r"if remaining > Decimal::ZERO \{", "move_buy_to_pool: guard")
        m = stmt(b, r"pool\.quantity \+= ([^;]+);", "move_buy_to_pool: quantity +=")
        out.append("def Gen.pool_add_quantity (pool_quantity remaining : Rat) : Rat := (pool_quantity + " + rust_expr(m.group(1), {"remaining": "remaining"}, "move_buy_to_pool") + ")")
        m = stmt(b, r"pool\.total_cost \+= ([^;]+);", "move_buy_to_pool: total_cost +=")
        out.append("def Gen.pool_add_cost (pool_total_cost cost : Rat) : Rat := (pool_total_cost + " + rust_expr(m.group(1), {"cost": "cost"}, "move_buy_to_pool") + ")")
        # process_corporate_action: SPLIT multiplies the pooled quantity, UNSPLIT divides it (unless the ratio is zero)
        b = fn_body(mod, "process_corporate_action")
        m = stmt(b, r"Operation::Split \{ ratio \} => \{\s*if let Some\(pool\) = self\.pools\.get_mut\(&tx\.ticker\) \{\s*pool\.quantity \*= ([^;]+);", "process_corporate_action: SPLIT")
        out.append("def Gen.split_quantity (pool_quantity ratio : Rat) : Rat := (pool_quantity * " + rust_expr(m.group(1), {"ratio": "ratio"}, "SPLIT") + ")")
        m = stmt(b, r"Operation::Unsplit \{ ratio \} => \{\s*if let Some\(pool\) = self\.pools\.get_mut\(&tx\.ticker\)\s*&& \*ratio != Decimal::ZERO\s*\{\s*pool\.quantity /= ([^;]+);", "process_corporate_action: UNSPLIT")
        out.append("def Gen.unsplit_quantity (pool_quantity ratio : Rat) : Rat := (pool_quantity / " + rust_expr(m.group(1), {"ratio": "ratio"}, "UNSPLIT") + ")")
        # the 30-day rule's arithmetic (bed_and_breakfast.rs)
        def tail(body, where):
            m = re.search(r";\s*\n\s*([^;{}]+?)\s*\}$", body)
            if not m:
                raise Missing(f"{where}: no tail expression")
            return m.group(1)
        b = fn_body(bnb, "available_for_bnb_after_reservations")
        env = {"buy_amount": "buy_amount", "same_day_claim": "same_day_claim", "already_reserved": "already_reserved"}
        m = stmt(b, r"let reserve_now = ([^;]+);", "available_for_bnb_after_reservations: reserve_now")
        rn = rust_expr(m.group(1), env, "available_for_bnb_after_reservations: reserve_now")
        env["reserve_now"] = rn
        out.append("def Gen.bnb_available (buy_amount same_day_claim already_reserved : Rat) : Rat := " + rust_expr(tail(b, "available_for_bnb_after_reservations"), env, "available_for_bnb_after_reservations"))
        b = fn_body(bnb, "matched_buy_cost")
        P = "(matched_qty_at_buy_time buy_amount buy_price buy_fees cost_offset : Rat)"
        A = "matched_qty_at_buy_time buy_amount buy_price buy_fees cost_offset"
        env = {k: k for k in A.split()}
        for name in ["total_cost", "unit_cost"]:
            m = stmt(b, r"let " + name + r" = ((?:[^;{}]|\{[^{}]*\})+);", f"matched_buy_cost: let {name}")
            out.append(f"def Gen.bnb_{name} {P} : Rat := " + rust_expr(m.group(1), env, f"matched_buy_cost: {name}"))
            env[name] = f"(Gen.bnb_{name} {A})"
        out.append(f"def Gen.bnb_matched_cost {P} : Rat := " + rust_expr(tail(b, "matched_buy_cost"), env, "matched_buy_cost"))
        b = fn_body(bnb, "matched_quantities_with_split_ratio")
        P = "(remaining_at_sell_time available_at_buy_time cumulative_ratio_effect : Rat)"
        A = "remaining_at_sell_time available_at_buy_time cumulative_ratio_effect"
        env = {k: k for k in A.split()}
        for name in ["available_at_sell_time", "matched_qty_at_sell_time", "matched_qty_at_buy_time"]:
            m = stmt(b, r"let " + name + r" = ([^;]+);", f"matched_quantities_with_split_ratio: let {name}")
            out.append(f"def Gen.bnb_{name} {P} : Rat := " + rust_expr(m.group(1), env, f"matched_quantities_with_split_ratio: {name}"))
            env[name] = f"(Gen.bnb_{name} {A})"
        stmt(b, r"\(matched_qty_at_sell_time, matched_qty_at_buy_time\)\s*\}$", "matched_quantities_with_split_ratio: result pair")
        b = fn_body(bnb, "reserve_future_buy_consumption")
        stmt(b, r"let reserved_entry = future_consumption\.entry\(idx\)\.or_insert\(Decimal::ZERO\);", "reserve_future_buy_consumption: entry")
        m = stmt(b, r"\*reserved_entry \+= ([^;]+);", "reserve_future_buy_consumption: +=")
        out.append("def Gen.bnb_new_reserved (reserved matched_qty_at_buy_time : Rat) : Rat := (reserved + " + rust_expr(m.group(1), {"matched_qty_at_buy_time": "matched_qty_at_buy_time"}, "reserve_future_buy_consumption") + ")")
        b = fn_body(bnb, "outstanding_bnb_claims")
        m = stmt(b, r"if ratio != Decimal::ZERO \{\s*total \+= ([^;]+);", "outstanding_bnb_claims: total +=")
        out.append("def Gen.bnb_outstanding_add (total qty_at_buy_time ratio : Rat) : Rat := (total + " + rust_expr(m.group(1), {"qty_at_buy_time": "qty_at_buy_time", "ratio": "ratio"}, "outstanding_bnb_claims") + ")")
        b = fn_body(bnb, "apply_split_ratio_effect")
        m = stmt(b, r"Operation::Split \{ ratio \} => \{\s*\*cumulative_ratio_effect \*= ([^;]+);", "apply_split_ratio_effect: SPLIT")
        out.append("def Gen.bnb_ratio_split (cumulative_ratio_effect ratio : Rat) : Rat := (cumulative_ratio_effect * " + rust_expr(m.group(1), {"ratio": "ratio"}, "apply_split_ratio_effect") + ")")
        m = stmt(b, r"Operation::Unsplit \{ ratio \} => \{\s*if \*ratio != Decimal::ZERO \{\s*\*cumulative_ratio_effect /= ([^;]+);", "apply_split_ratio_effect: UNSPLIT")
        out.append("def Gen.bnb_ratio_unsplit (cumulative_ratio_effect ratio : Rat) : Rat := (cumulative_ratio_effect / " + rust_expr(m.group(1), {"ratio": "ratio"}, "apply_split_ratio_effect") + ")")
        b = fn_body(bnb, "build_bnb_match")
        m = stmt(b, r"let gain_or_loss = ([^;]+);", "build_bnb_match: gain")
        out.append("def Gen.bnb_gain (net cost : Rat) : Rat := " + rust_expr(m.group(1), {"proceeds.net_proceeds": "net", "cost": "cost"}, "build_bnb_match: gain"))
        # calculator.rs: a year's totals
        b = fn_body(calc, "calculate_totals")
        m = stmt(b, r"if net > Decimal::ZERO \{\s*total_gain \+= ([^;]+);\s*\} else if net < Decimal::ZERO \{\s*total_loss \+= ([^;]+);\s*\}", "calculate_totals: the two accumulations")
        g = rust_expr(m.group(1), {"net": "net"}, "calculate_totals: gain")
        lo = m.group(2).strip()
        if lo != "net.abs()":
            raise Missing(f"calculate_totals: a loss is accumulated as {lo!r}, not as net.abs()")
        stmt(b, r"let net: Decimal = disposal\.matches\.iter\(\)\.map\(\|m\| m\.gain_or_loss\)\.sum\(\);", "calculate_totals: a disposal's net result is the sum of its legs' gains")
        out.append(f"def Gen.totals_gain_step (total_gain net : Rat) : Rat := (if net > 0 then (total_gain + {g}) else total_gain)")
        out.append("def Gen.totals_loss_step (total_loss net : Rat) : Rat := (if net > 0 then total_loss else if net < 0 then (total_loss + (if net < 0 then -net else net)) else total_loss)")
        src = read(calc).split("#[cfg(test)]")[0]
        nets = re.findall(r"net_gain: ([^,]+),", src)
        if len(nets) != 2:
            raise Missing(f"calculator.rs: expected two `net_gain:` fields (single-year and all-years builders), found {len(nets)}")
        ng = all_same([rust_expr(x, {"total_gain": "total_gain", "total_loss": "total_loss"}, "net_gain") for x in nets], "net_gain")
        out.append(f"def Gen.net_gain (total_gain total_loss : Rat) : Rat := {ng}")
        # cgt-money: conversion of a foreign amount
        b = fn_body("crates/cgt-money/src/amount.rs", "to_gbp")
        m = stmt(b, r"Ok\(([^()]+)\)\s*\}$", "to_gbp: the converted amount")
        out.append("def Gen.fx_to_gbp (amount rate_per_gbp : Rat) : Rat := " + rust_expr(m.group(1), {"self.amount": "amount", "rate_entry.rate_per_gbp": "rate_per_gbp"}, "to_gbp"))
        stmt(b, r"if self\.is_gbp\(\) \{\s*return Ok\(self\.amount\);\s*\}", "to_gbp: sterling is returned as it is")
        stmt(b, r"if self\.amount\.is_zero\(\) \{\s*return Ok\(Decimal::ZERO\);\s*\}", "to_gbp: a zero amount needs no rate")
        out.append(f"def Gen.merge_total (q p q' p' : Rat) : Rat := {t}")
        out.append(f"def Gen.merge_price (total qq : Rat) : Rat := {pe}")
        return out

    # a group whose anchor is missing keeps the definitions of the last generated file, and is
    # reported in build/extract_status.json; ./check fails the properties that depend on it
    old = None
    try:
        old = open(OUT, encoding="utf-8").read()
    except OSError:
        pass
    order = ["window", "taxyear", "mcp_year", "disposal_round", "exemptions", "money_round", "pdf_round", "grammar", "writer", "validator", "cascade", "cli_join", "rsu", "formulas"]
    lines = []
    for gname in order:
        if gname in GROUPS:
            lines.append(f"-- group {gname}")
            lines.extend(GROUPS[gname])
        else:
            kept = []
            if old:
                mm = re.search(r"-- group " + gname + r"\n((?:def .*\n)+)", old)
                if mm:
                    kept = mm.group(1).rstrip("\n").split("\n")
            if not kept:
                print(f"extract: FAILED: group {gname}: {ERRORS[gname]} (and no previous value to keep)", file=sys.stderr)
                sys.exit(2)
            lines.append(f"-- group {gname}")
            lines.extend(kept)
    body = "-- GENERATED by tools/extract.py from /repo sources on every run. Do not edit.\nset_option linter.unusedVariables false\nnamespace Cgt\n" + "\n".join(lines) + "\nend Cgt\n"
    import json
    os.makedirs("/verif/build", exist_ok=True)
    json.dump({"failed": ERRORS}, open("/verif/build/extract_status.json", "w"), indent=1)
    if old != body:
        with open(OUT, "w", encoding="utf-8") as f:
            f.write(body)
        print(f"extract: wrote {OUT} ({len(GROUPS)} groups ok, {len(ERRORS)} failed)")
    else:
        print(f"extract: {OUT} up to date ({len(GROUPS)} groups ok, {len(ERRORS)} failed)")
    for g, e in ERRORS.items():
        print(f"extract: group {g} FAILED: {e}", file=sys.stderr)

if __name__ == "__main__":
    try:
        main()
    except Missing as e:
        print(f"extract: FAILED: {e}", file=sys.stderr)
        sys.exit(2)
