#!/bin/bash
# verify_seed.sh <worktree> <seed_dir> : confirm a seeded change (suite green with it, demo red with it, demo green without it)
WT=$1; SD=$2; CR=${3:-cgt-core}
export CARGO_TARGET_DIR=$WT/target CARGO_NET_OFFLINE=true TMPDIR=$WT/target/tmp; mkdir -p $TMPDIR   # private TMPDIR: two cgt-cli PDF tests write fixed names into the temp dir and collide across concurrent worktrees
cd $WT || exit 2
git checkout -q -- . ; git clean -fdq -e target   # never git stash: the stash is shared by all worktrees of /repo
DEMO=$(ls $SD/demo/*.rs $SD/*.rs 2>/dev/null | head -1)
cp $DEMO crates/$CR/tests/seed_demo.rs
echo "== demo WITHOUT change"; cargo test --offline -q -p $CR --test seed_demo 2>&1 | grep -E "^test result" | head -3
git apply $SD/patch.diff || { echo "patch does not apply"; exit 2; }
echo "== demo WITH change"; cargo test --offline -q -p $CR --test seed_demo 2>&1 | grep -E "^test result" | head -3
rm crates/$CR/tests/seed_demo.rs
echo "== suite WITH change"; cargo test --workspace --offline --no-fail-fast 2>&1 | grep -E "^test result" | awk '{p+=$4; f+=$6} END {print "passed",p,"failed",f}'
