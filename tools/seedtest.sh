#!/bin/bash
# seedtest.sh <seed-id> <prop>... : apply the seeded change to /repo, run the named checks, undo.
S=$1; shift
cd /repo && git diff --quiet || { echo "/repo has uncommitted changes"; exit 2; }
git -C /repo apply /verif/seeded/$S/patch.diff || exit 2
for P in "$@"; do
  echo "--- seed $S check $P"
  (cd /verif && ./check $P --tier quick 2>&1 | grep -E "^(VIOLATION|OK|KNOWN|# )" | head -6)
done
git -C /repo checkout -- .
