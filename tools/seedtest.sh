#!/bin/bash
# seedtest.sh <seed-id> <prop>... : apply the seeded change to /repo, run the named checks, undo.
# The evidence files the checks write while the seed is applied are discarded afterwards (the
# committed evidence must come from the unchanged tree only).
S=$1; shift
cd /repo && git diff --quiet || { echo "/repo has uncommitted changes"; exit 2; }
SAVE=$(mktemp -d /verif/build/evsave.XXXXXX)
cp -a /verif/evidence/. "$SAVE"/
git -C /repo apply /verif/seeded/$S/patch.diff || { rm -rf "$SAVE"; exit 2; }
for P in "$@"; do
  echo "--- seed $S check $P"
  (cd /verif && ./check $P --tier quick 2>&1 | grep -E "^(VIOLATION|OK|KNOWN|# )" | head -6)
done
git -C /repo checkout -- .
cp -a "$SAVE"/. /verif/evidence/ && rm -rf "$SAVE"
# the generated constants must be re-extracted from the clean tree
(cd /verif && python3 tools/extract.py >/dev/null 2>&1)
