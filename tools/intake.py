#!/usr/bin/env python3
"""intake.py <round> <prop>... : store a confirmed seeded change from /tmp/seed<round>_<prop> as seeded/<prop>-s<round>/"""
import json, os, shutil, sys
rnd = sys.argv[1]
for p in sys.argv[2:]:
    sd = f"/tmp/seed{rnd}_{p}"; dst = f"/verif/seeded/{p}-s{rnd}"
    rep = json.load(open(f"{sd}/report.json"))
    log = open(f"{sd}/verify.log").read()
    res = [l.strip() for l in log.split("\n") if l.startswith("test result") or l.startswith("passed")]
    confirmed = " | ".join(res) + (" | " + open(f"{sd}/verify.extra").read().strip() if os.path.exists(f"{sd}/verify.extra") else "")
    os.makedirs(dst, exist_ok=True)
    shutil.copy(f"{sd}/patch.diff", dst); shutil.copy(f"{sd}/seed_demo.rs", dst)
    meta = {"id": f"{p}-s{rnd}", "round": int(rnd), "property": p, "summary": rep["summary"], "needs": rep["needs"],
            "confirmed": confirmed, "checks": {}, "agent_report": {"demo": f"seed_demo.rs is an integration test for crate {rep['crate']} (copy to crates/{rep['crate']}/tests/)", "ran": rep["ran"]}}
    json.dump(meta, open(f"{dst}/meta.json", "w"), indent=1, ensure_ascii=False)
    print("stored", dst, "|", confirmed[-60:])
