#!/usr/bin/env python3
"""Regenerates MANIFEST.json from tools/claims.json (one entry per claimed property)."""
import json
claims = json.load(open("/verif/tools/claims.json"))
props = [json.loads(l) for l in open("/verif/properties.jsonl")]
ids = [p["id"] for p in props]
checks = []
for pid in ids:
    c = claims.get(pid)
    if not c or not c.get("claimed"):
        continue
    checks.append({
        "property_id": pid,
        "quick_cmd": f"./check {pid} --tier quick",
        "thorough_cmd": f"./check {pid} --tier thorough",
        "evidence_file": f"/verif/evidence/{pid}.json",
        "replay_cmd_template": f"./check {pid} --replay {{path}}",
        "engine": "lean-model+harness",
        "level_claimed": {"category": "proof", "text": c["text"], "design_ref": c.get("design_ref", "DESIGN.md §9 " + pid)},
        "level_note": c["note"],
        "technique": c["technique"],
    })
na = [{"property_id": pid, "reason": claims.get(pid, {}).get("na_reason", "not yet claimed: Lean theorems and correspondence check for this property are still being built (DESIGN.md §9)")}
      for pid in ids if not claims.get(pid, {}).get("claimed")]
m = {
    "version": 1,
    "setup_cmd": "./setup.sh",
    "hooks": {
        "guard": "velikodniy_cgt_tool_verif",
        "enable": "rustflags = [\"--cfg\", \"velikodniy_cgt_tool_verif\"] in /verif/harness/.cargo/config.toml: the harness compiles /repo's crates with the hook on (cgt_formatter_pdf::verif_text_runs, used by C17); the cgt-tool binary the checks run is built without it",
        "baseline_off_cmd": "cd /repo && cargo test --workspace --no-fail-fast --offline",
        "source_commits": claims.get("_hook_commits", []),
        "add_only": True,
    },
    "engines": [
        {"name": "lean-model+harness", "path": "/verif/lean, /verif/harness, /verif/check",
         "serves_properties": [c["property_id"] for c in checks],
         "kind_free_text": "Lean 4 model of cgt-tool's logic with machine-checked theorems per property; constants regenerated from the sources by tools/extract.py; Rust differential harness runs the real code and the compiled Lean driver on the same inputs and evaluates each property's oracle on the real output"}
    ],
    "checks": checks,
    "notes": claims.get("_notes", ""),
    "not_applicable": na,
}
json.dump(m, open("/verif/MANIFEST.json", "w"), indent=1, ensure_ascii=False)
print(f"MANIFEST: {len(checks)} claimed, {len(na)} not claimed")
