#!/bin/sh
# Build the framework from files on disk only (offline): Lean model + theorems + driver, Rust harness.
set -e
cd /verif
export CARGO_NET_OFFLINE=true CARGO_TARGET_DIR=/verif/build/target
export RUSTFLAGS="--cfg velikodniy_cgt_tool_verif"
mkdir -p build evidence replays
python3 tools/extract.py
(cd lean && lake build)
(cd harness && cargo build --offline)
