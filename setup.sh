#!/bin/sh
# Build the framework from files on disk only (offline): Lean model + theorems + driver, Rust harness.
set -e
cd /verif
export CARGO_NET_OFFLINE=true CARGO_TARGET_DIR=/verif/build/target
export RUSTFLAGS="--cfg velikodniy_cgt_tool_verif"
mkdir -p build evidence replays
python3 tools/extract.py
(cd lean && lake build)
(cd harness && cargo build --offline)
(cd /repo && CARGO_TARGET_DIR=/verif/build/repo-target CARGO_PROFILE_DEV_OPT_LEVEL=1 CARGO_PROFILE_DEV_DEBUG=false cargo build --offline -p cgt-cli)
