#!/bin/sh
# placeholder until the framework exists
exit 0
